---------------------------- MODULE BabbleBase ----------------------------
(***************************************************************************)
(* Shared definitions for the Babble specification family: thresholds,     *)
(* medians, small sequence/function helpers.  No variables, no constants.  *)
(***************************************************************************)
EXTENDS Integers, Sequences, FiniteSets, TLC

\* peers.PeerSet.SuperMajority(): 2*n/3 + 1 with Go integer division
SuperMajority(n) == (2 * n) \div 3 + 1

\* peers.PeerSet.TrustCount(): 0 for n <= 1, ceil(n/3) otherwise.  A block is
\* trusted when  #signatures > TrustCount(n).
TrustCount(n) == IF n > 1 THEN (n + 2) \div 3 ELSE 0

MaxI(a, b) == IF a >= b THEN a ELSE b
MinI(a, b) == IF a <= b THEN a ELSE b

MaxOfSet(S, dflt) == IF S = {} THEN dflt ELSE CHOOSE x \in S : \A y \in S : y <= x
MinOfSet(S, dflt) == IF S = {} THEN dflt ELSE CHOOSE x \in S : \A y \in S : x <= y

Range(s) == { s[i] : i \in DOMAIN s }

SeqContains(s, x) == \E i \in DOMAIN s : s[i] = x

\* sequence without the elements that satisfy Drop(_)
RECURSIVE SeqFilterOut(_, _)
SeqFilterOut(s, x) ==
    IF s = << >> THEN << >>
    ELSE IF Head(s) = x THEN SeqFilterOut(Tail(s), x)
         ELSE << Head(s) >> \o SeqFilterOut(Tail(s), x)

\* first position of x in s, 0 if absent
PosIn(s, x) == IF \E i \in DOMAIN s : s[i] = x
               THEN CHOOSE i \in DOMAIN s : s[i] = x /\ \A j \in 1..(i-1) : s[j] # x
               ELSE 0

IsPrefixOf(s, t) == Len(s) <= Len(t) /\ \A i \in 1..Len(s) : s[i] = t[i]

\* flatten a sequence of sequences
RECURSIVE Flatten(_)
Flatten(ss) == IF ss = << >> THEN << >> ELSE Head(ss) \o Flatten(Tail(ss))

\* sorted sequence (ascending) of a sequence of integers
SortInts(s) == SortSeq(s, LAMBDA a, b : a < b)

\* Go truncating division (toward zero) of a by 2
HalfTrunc(a) == IF a >= 0 THEN a \div 2 ELSE -((-a) \div 2)

\* common.Median: 0 for the empty list, the middle element for odd length,
\* the truncated average of the two middle elements for even length.
\* (Median is that function on arbitrary integers.)  Event timestamps are unix
\* seconds: the sum is positive and Go's truncation is the floor.  Trace timestamps are offsets from a base near the wall clock (the
\* offset of a sum is the sum of the offsets minus an even number), so the
\* floor of the offsets' sum is the image of that truncation - HalfTrunc on
\* offsets would round -63/2 to -31 where the code, on absolute values,
\* yields base - 32.
Median(s) ==
    LET t == SortInts(s)
        l == Len(t)
    IN  IF l = 0 THEN 0
        ELSE IF l % 2 = 0 THEN HalfTrunc(t[l \div 2] + t[l \div 2 + 1])
             ELSE t[l \div 2 + 1]

\* Median over event timestamps (see the note above): floor of the average
MedianTS(s) ==
    LET t == SortInts(s)
        l == Len(t)
    IN  IF l = 0 THEN 0
        ELSE IF l % 2 = 0 THEN (t[l \div 2] + t[l \div 2 + 1]) \div 2
             ELSE t[l \div 2 + 1]

\* the two middle elements of the sorted list (equal for odd length)
MedianBracket(s) ==
    LET t == SortInts(s)
        l == Len(t)
    IN  IF l = 0 THEN << 0, 0 >>
        ELSE IF l % 2 = 0 THEN << t[l \div 2], t[l \div 2 + 1] >>
             ELSE << t[l \div 2 + 1], t[l \div 2 + 1] >>

\* TLC evaluates [x \in S |-> e] lazily (the body is re-evaluated at every
\* application, and chains of such functions nest).  Strict forces the
\* function into an explicit table once.
Strict(f) == f @@ << >>

\* function with one more point (k overrides)
Ext(f, k, v) == (k :> v) @@ f

\* function without one point
Without(f, k) == Strict([ x \in (DOMAIN f) \ {k} |-> f[x] ])

\* apply-or-default
Get(f, k, d) == IF k \in DOMAIN f THEN f[k] ELSE d

EmptyFun == << >>

=============================================================================
