SPECIFICATION Spec
CONSTANTS
  Keys = {k1, k2, k3}
  MaxVer = 2
  CacheSize = 2
  WriteThroughInMaintenance = FALSE
INVARIANTS ReadLastWritten Durable TypeOK
CHECK_DEADLOCK FALSE
