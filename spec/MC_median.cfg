SPECIFICATION Spec
CONSTANTS
  NMaxM = 7
  AllVals <- MCAllVals
  HonestVals <- MCHonestVals
INVARIANTS C18_MedianWithinHonestRange C18_BracketHonest
CHECK_DEADLOCK FALSE
