SPECIFICATION SpecDyn
CONSTANTS
  Creators = {1,2,3,4}
  Nodes = {1,2,3,4}
  Genesis <- Gen4
  Joiners = {}
  Leavers = {3,4}
  Refused = {}
  Limits = {100}
  MaxEvents = 44
  MaxTx = 2
  MaxMsgs = 2
  Silent = {}
  NoEv <- MCNoEv
  RootDepth = 2
  ActivationDelay = 2
  CoinFreq = 4
  CheckIndex = TRUE
VIEW MCView
INVARIANTS C01_Agreement C02_Consecutive C07_Chains C03_SameValues C03_SameFame C10_SameAcrossNodes
CHECK_DEADLOCK FALSE
