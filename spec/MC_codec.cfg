SPECIFICATION Spec
INVARIANT KeepsIdentity
CHECK_DEADLOCK FALSE
