SPECIFICATION Spec
INVARIANTS SuccessIsReal AtMostThree ErrorAfterThree
CHECK_DEADLOCK FALSE
