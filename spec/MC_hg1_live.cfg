SPECIFICATION FairSpec
CONSTANTS
  Creators = {1}
  Nodes = {1}
  Genesis <- Gen1
  Limits = {100}
  MaxEvents = 12
  MaxTx = 1
  MaxMsgs = 1
  Silent = {}
  NoEv <- MCNoEv
  RootDepth = 2
  ActivationDelay = 2
  CoinFreq = 4
  CheckIndex = TRUE
PROPERTIES C06_EventuallyIdle C06_AllCommitted
CHECK_DEADLOCK FALSE
