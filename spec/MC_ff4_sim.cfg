SPECIFICATION FSpec
CONSTANTS
  Creators = {1,2,3,4}
  Nodes = {1,2,3,4}
  Genesis <- FGen4
  Limits = {1, 3, 100}
  MaxEvents = 150
  MaxTx = 24
  MaxMsgs = 2
  Silent = {}
  NoEv <- FNoEv
  RootDepth = 2
  ActivationDelay = 6
  CoinFreq = 4
  CheckIndex = TRUE
  MaxFF = 2
  TxEvery = 5
  Laggard = 4
INVARIANTS C13_SameChain C13_ContinuesAfterAnchor C13_FramesIdentical C05_Integrity C09_AnchorTrusted FameUnambiguous
CHECK_DEADLOCK FALSE
