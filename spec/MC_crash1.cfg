SPECIFICATION CSpec
CONSTANTS
  Creators = {1}
  Nodes = {1}
  Genesis <- CGen1
  Limits = {100}
  MaxEvents = 8
  MaxTx = 3
  MaxMsgs = 1
  Silent = {}
  NoEv <- CNoEv
  RootDepth = 2
  ActivationDelay = 2
  CoinFreq = 4
  CheckIndex = TRUE
  MaxCrashes = 2
VIEW CView
INVARIANTS C01_Agreement C02_Consecutive C02_StoreKeepsDelivered C04_Causal C05_Integrity C07_Chains C09_AnchorTrusted C11_Redelivery C11_HeadRestored
PROPERTIES C11_AppendOnly
CHECK_DEADLOCK FALSE
