------------------------------ MODULE MC_hg ------------------------------
EXTENDS Babble
MCNoEv == << 0, -1 >>
Gen1 == << 1 >>
Gen2 == << 1, 2 >>
Gen3 == << 1, 2, 3 >>
Gen4 == << 1, 2, 3, 4 >>
MCView == << D, nodes, msgs >>
NoBlockYet == \A n \in Nodes : Len(Out(n)) < 2
Bounded == Cardinality(DOMAIN D) <= MaxEvents
\* sensitivity control (MC_hg2_mutSM.cfg): a "super-majority" of one half (two of them need not
\* intersect) - TLC must find a counterexample
MutSM(n) == MaxI(1, n \div 2)
=============================================================================
