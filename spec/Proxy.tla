------------------------------- MODULE Proxy -------------------------------
(***************************************************************************)
(* One call through the socket proxy (socket_app_proxy_client.go call, and *)
(* its mirror socket_babble_proxy_client.go): up to three attempts; each   *)
(* attempt needs a connection (kept from the previous call, or dialled),   *)
(* sends the request, and either gets the reply or fails (refused, reply   *)
(* lost, timeout).  The handler on the other side may run in an attempt    *)
(* that fails afterwards.                                                  *)
(*                                                                         *)
(* Checked: a call that reports success returns the value some run of the  *)
(* handler returned for this very request (never an invented or empty      *)
(* value); a call whose handler only ever returned errors reports an       *)
(* error; at most three attempts are made.                                 *)
(***************************************************************************)
EXTENDS ProxyCases, TLC, Json, SequencesExt

VARIABLES attempt,   \* attempts used so far
          conn,      \* "none" | "live" | "dead" (closed by the other end, not noticed yet)
          runs,      \* values the handler returned, in order ("err" for a handler error)
          outcome,   \* [st: "pending" | "ok" | "error", v: the value returned]
          dumped

vars == << attempt, conn, runs, outcome, dumped >>

HandlerResults == { "v", "err" }

Init == attempt = 0 /\ conn \in { "none", "live", "dead" } /\ runs = << >> /\ outcome = [ st |-> "pending", v |-> "" ] /\ dumped = FALSE

Fail == IF attempt + 1 >= 3 THEN outcome' = [ st |-> "error", v |-> "" ] ELSE outcome' = outcome

\* the attempt cannot get a connection
Refused ==
    /\ outcome.st = "pending" /\ attempt < 3 /\ conn = "none"
    /\ attempt' = attempt + 1 /\ Fail
    /\ UNCHANGED << conn, runs, dumped >>

\* the request goes out on a connection the other end has already closed
DeadConnection ==
    /\ outcome.st = "pending" /\ attempt < 3 /\ conn = "dead"
    /\ attempt' = attempt + 1 /\ conn' = "none" /\ Fail
    /\ UNCHANGED << runs, dumped >>

Dial == /\ outcome.st = "pending" /\ attempt < 3 /\ conn = "none"
        /\ conn' = "live"
        /\ UNCHANGED << attempt, runs, outcome, dumped >>

\* the handler runs and the reply arrives
Answered ==
    /\ outcome.st = "pending" /\ attempt < 3 /\ conn = "live"
    /\ \E r \in HandlerResults :
          /\ runs' = Append(runs, r)
          /\ attempt' = attempt + 1
          /\ IF r = "err"
             THEN /\ conn' = "none"       \* the client drops the connection after any failed call
                  /\ Fail
             ELSE /\ outcome' = [ st |-> "ok", v |-> r ]
                  /\ conn' = conn
    /\ UNCHANGED dumped

\* the handler runs (or not), the reply never arrives: connection lost / timeout
ReplyLost ==
    /\ outcome.st = "pending" /\ attempt < 3 /\ conn = "live"
    /\ \E ran \in BOOLEAN : \E r \in HandlerResults :
          runs' = IF ran THEN Append(runs, r) ELSE runs
    /\ attempt' = attempt + 1 /\ conn' = "none" /\ Fail
    /\ UNCHANGED dumped

Dump == /\ ~dumped /\ dumped' = TRUE
        /\ JsonSerialize("proxy_cases.json",
                         [ commits |-> SetToSeq(CommitCases), submits |-> SetToSeq(SubmitCases), snapshots |-> SetToSeq(SnapCases) ])
        /\ UNCHANGED << attempt, conn, runs, outcome >>

Next == Refused \/ DeadConnection \/ Dial \/ Answered \/ ReplyLost \/ Dump
Spec == Init /\ [][Next]_vars

SeqRange(s) == { s[i] : i \in 1..Len(s) }

\* success returns a value the handler really returned for this request
SuccessIsReal == outcome.st = "ok" => (outcome.v \in SeqRange(runs) /\ outcome.v # "err")
\* never more than three attempts
AtMostThree == attempt <= 3
\* the call ends: after three failed attempts it reports an error
ErrorAfterThree == ~(attempt = 3 /\ outcome.st = "pending")
=============================================================================
