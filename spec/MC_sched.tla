------------------------------ MODULE MC_sched ------------------------------
(***************************************************************************)
(* Schedule generation (specification -> implementation).                  *)
(*                                                                         *)
(* Babble.tla simulated by TLC beyond the bounds of the exhaustive         *)
(* configurations (N = 3, 4; tens of events; several messages in flight,   *)
(* i.e. responses that are stale when they are consumed), every invariant  *)
(* of the design evaluated in every state.  A history variable records the *)
(* behaviour as a list of actions with their arguments and with what the   *)
(* specification predicts for the acting node after the step; at the       *)
(* depth bound the list is printed as JSON.  The driver (mode "sched")     *)
(* steps real cores through the same actions - Send computes the real      *)
(* eventDiff and keeps it in flight, Deliver feeds it to the real          *)
(* core.sync later - records the usual trace, and Trace.tla compares the   *)
(* prediction with the observed state (Conf_Sched_Pred).                       *)
(***************************************************************************)
EXTENDS Babble, Json

CONSTANTS TxEvery,       \* submissions are spread out: one per TxEvery events
          StopAt         \* a behaviour ends (and is printed) when this many events exist

VARIABLES hist,         \* the behaviour so far
          tags,         \* message in flight -> number of the Send that made it
          nsend,
          fin           \* 0: running, 1: just ended (printed), 2: idling until TLC's depth bound

svars == << vars, hist, tags, nsend, fin >>

SNoEv == << 0, -1 >>
SGen3 == << 1, 2, 3 >>
SGen4 == << 1, 2, 3, 4 >>
SGen5 == << 1, 2, 3, 4, 5 >>

Pred(nd) ==
    [ known |-> KnownMap(nd.h), seq |-> nd.seq, pool |-> Len(nd.txpool),
      nblk |-> Len(nd.h.out), busy |-> Busy(nd), lcr |-> nd.h.lcr ]

SInit == Init /\ hist = << >> /\ tags = EmptyFun /\ nsend = 0 /\ fin = 0

SSubmit(n) ==
    /\ Cardinality(DOMAIN D) >= TxEvery * Cardinality(DOMAIN submitted)
    /\ Submit(n)
    /\ hist' = Append(hist, [ a |-> "Submit", n |-> n, tx |-> Cardinality(DOMAIN submitted) + 1 ])
    /\ UNCHANGED << tags, nsend >>

SSend(x, y, lim) ==
    /\ y \notin Silent
    /\ Send(x, y, lim)
    /\ \E m \in msgs' \ msgs :
          /\ tags' = Ext(tags, m, nsend + 1)
          /\ hist' = Append(hist, [ a |-> "Send", id |-> nsend + 1, from |-> x, to |-> y,
                                    lim |-> lim, evs |-> m.evs ])
    /\ nsend' = nsend + 1

SDeliver(m) ==
    /\ Deliver(m)
    /\ hist' = Append(hist, [ a |-> "Deliver", id |-> tags[m], n |-> m.to, from |-> m.from,
                              new |-> SetToSeq(DOMAIN D' \ DOMAIN D),
                              pred |-> Pred(nodes'[m.to]) ])
    /\ tags' = Without(tags, m)
    /\ UNCHANGED nsend

\* (losing every fourth message is enough)
SDrop(m) ==
    /\ m \in msgs /\ tags[m] % 4 = 0
    /\ Drop(m)
    /\ hist' = Append(hist, [ a |-> "Drop", id |-> tags[m] ])
    /\ tags' = Without(tags, m)
    /\ UNCHANGED nsend

SMonologue(n) ==
    /\ Monologue(n)
    /\ hist' = Append(hist, [ a |-> "Monologue", n |-> n, pred |-> Pred(nodes'[n]) ])
    /\ UNCHANGED << tags, nsend >>

\* a behaviour ends when StopAt events exist; TLC's simulator would back up and
\* try other successors at a state without any, so the end is an explicit step
\* followed by idling
SNext ==
    \/ /\ fin = 0 /\ Cardinality(DOMAIN D) < StopAt
       /\ UNCHANGED fin
       /\ \/ \E n \in Nodes : SSubmit(n)
          \/ \E x, y \in Nodes, lim \in Limits : SSend(x, y, lim)
          \/ \E m \in msgs : SDeliver(m)
          \/ \E m \in msgs : SDrop(m)
          \/ \E n \in Nodes : SMonologue(n)
    \/ /\ fin = 0 /\ Cardinality(DOMAIN D) >= StopAt
       /\ fin' = 1 /\ UNCHANGED << vars, hist, tags, nsend >>
    \/ /\ fin >= 1
       /\ fin' = 2 /\ UNCHANGED << vars, hist, tags, nsend >>

SSpec == SInit /\ [][SNext]_svars

\* printed once per behaviour, when it has ended
DumpSchedule ==
    fin = 1 =>
        PrintT(<< "@@SCHED", ToJson([ nodes |-> Cardinality(Nodes), genesis |-> Genesis,
                                      silent |-> SetToSeq(Silent), steps |-> hist ]) >>)

\* the design invariants need no re-evaluation while idling
Running == fin = 0

=============================================================================
