SPECIFICATION TSpec
CONSTANTS
  Creators <- TraceCreators
  NoEv = ""
  RootDepth = 10
  ActivationDelay = 6
  CoinFreq = 4
  CheckIndex = TRUE
CHECK_DEADLOCK FALSE
ALIAS TAlias
VIEW TView
