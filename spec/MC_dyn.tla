------------------------------ MODULE MC_dyn ------------------------------
EXTENDS BabbleDyn
MCNoEv == << 0, -1 >>
Gen1 == << 1 >>
Gen2 == << 1, 2 >>
Gen4 == << 1, 2, 3, 4 >>
MCView == << D, nodes, msgs >>
\* reachability controls (expected to be violated: the interesting states are within the bounds)
NoBlockOfGrownSet == \A n \in Nodes : \A i \in 1..Len(Out(n)) : Len(Out(n)[i].peers) < 2
NoBlockOfShrunkSet == \A n \in Nodes : \A i \in 1..Len(Out(n)) : Len(Out(n)[i].peers) >= Len(Genesis)
JoinerNeverCreates == \A e \in DOMAIN D : D[e].c \notin Joiners
JoinNeverEffective == \A n \in Nodes : \A r \in DOMAIN nodes[n].h.ps : Len(nodes[n].h.ps[r]) < 2
JoinerNeverDelivers == \A n \in Joiners : Len(Out(n)) = 0
=============================================================================
