----------------------------- MODULE ProxyCases -----------------------------
(***************************************************************************)
(* C20: the case domain of the application proxy: what travels (block and  *)
(* response shapes, transaction shapes), through which proxy, under which  *)
(* connection-fault script.  Enumerated by TLC (Proxy.tla, Dump), executed *)
(* case by case against the real proxies, validated by Trace.tla.          *)
(*                                                                         *)
(* fault scripts (socket proxy only; the relay between the two sides       *)
(* applies them to the connections the calling side opens):                *)
(*   none          every connection passes                                 *)
(*   refuseK       the next K connection attempts are closed on accept     *)
(*   refuse3-cold  the other side has been unreachable for a while: the    *)
(*                 caller holds no connection and three attempts are refused *)
(*   down-cold     the same, with nothing listening at all (dial fails)     *)
(*   reply-lostK   the next K connections forward the request to the other *)
(*                 side (its handler runs) and are closed before the reply *)
(*   blackhole1    the next connection accepts the request and never       *)
(*                 answers (the caller's timeout fires)                    *)
(*   idle-kill     the idle connection left by the previous call is closed *)
(*   idle-kill+refuse2   ... and the next two attempts are refused         *)
(*   handler-error the handler on the other side returns an error          *)
(***************************************************************************)
EXTENDS Naturals, Sequences, FiniteSets

PTxShapes  == { "nil", "empty", "one-empty", "binary", "many", "large" }
PItxShapes == { "nil", "three" }
ShShapes   == { "nil", "empty", "bin32", "large" }
RcptShapes == { "nil", "empty", "some" }
SocketFaults == { "none", "refuse1", "refuse2", "refuse3", "refuse3-cold", "down-cold", "reply-lost1", "reply-lost3", "blackhole1",
                  "idle-kill", "idle-kill+refuse2", "handler-error" }
InmemFaults == { "none", "handler-error" }

CommitCases ==
    [ kind : {"commit"}, via : {"socket"}, txs : PTxShapes, itxs : PItxShapes, sh : ShShapes, rcpt : RcptShapes, fault : SocketFaults ]
    \cup
    [ kind : {"commit"}, via : {"inmem"}, txs : PTxShapes, itxs : PItxShapes, sh : ShShapes, rcpt : RcptShapes, fault : InmemFaults ]

SubmitShapes == { "empty", "ascii", "binary", "large" }
SubmitCases ==
    [ kind : {"submit"}, via : {"socket"}, shape : SubmitShapes, fault : { "none", "refuse1", "refuse3", "refuse3-cold", "down-cold", "reply-lost1", "idle-kill" } ]
    \cup
    [ kind : {"submit"}, via : {"inmem"}, shape : SubmitShapes, fault : { "none" } ]

SnapCases ==
    [ kind : {"snapshot"}, via : {"socket"}, size : { "nil", "empty", "bin", "large" }, fault : { "none", "refuse1", "reply-lost1", "refuse3", "refuse3-cold", "down-cold", "handler-error" } ]
    \cup
    [ kind : {"snapshot"}, via : {"inmem"}, size : { "nil", "empty", "bin", "large" }, fault : InmemFaults ]

IsProxyCase(x) ==
    CASE x.kind = "commit" -> [ kind |-> "commit", via |-> x.via, txs |-> x.txs, itxs |-> x.itxs, sh |-> x.sh,
                                rcpt |-> x.rcpt, fault |-> x.fault ] \in CommitCases
      [] x.kind = "submit" -> [ kind |-> "submit", via |-> x.via, shape |-> x.shape, fault |-> x.fault ] \in SubmitCases
      [] x.kind = "snapshot" -> [ kind |-> "snapshot", via |-> x.via, size |-> x.size, fault |-> x.fault ] \in SnapCases
      [] OTHER -> FALSE
=============================================================================
