SPECIFICATION Spec
CONSTANTS
  Creators = {1,2}
  Nodes = {1,2}
  Genesis <- Gen2
  Limits = {1, 100}
  MaxEvents = 10
  MaxTx = 1
  MaxMsgs = 1
  Silent = {}
  NoEv <- MCNoEv
  RootDepth = 2
  ActivationDelay = 2
  CoinFreq = 4
  CheckIndex = TRUE
  SuperMajority <- MutSM
VIEW MCView
INVARIANTS C01_Agreement C02_Consecutive C02_StoreKeepsDelivered C04_Causal C04_AncestorsFirst C05_Integrity C05_NeverDropped C07_Chains FameUnambiguous SSeeSound C03_SameValues C03_SameFame C09_AnchorTrusted
PROPERTIES C02_AppendOnly
CHECK_DEADLOCK FALSE
