------------------------------- MODULE Codec -------------------------------
(***************************************************************************)
(* C15, abstract statement: an object that travels any sequence of         *)
(* conversion paths keeps its identity.  The Dump action writes the case   *)
(* domain of CodecCases.tla to codec_cases.json for the driver.            *)
(***************************************************************************)
EXTENDS CodecCases, TLC, Json, SequencesExt

-----------------------------------------------------------------------------
(* abstract statement: an object keeps its identity along any path sequence *)

VARIABLES obj, hops, dumped

Paths == EventPaths \cup {"json", "refill"}

\* every encoder/decoder pair is the identity on (hash, signatures, payload)
Convert(o, p) == o

Init == obj = [ hash |-> "h", sigok |-> TRUE, payload |-> "p" ] /\ hops = 0 /\ dumped = FALSE

Hop == /\ hops < 3
       /\ \E p \in Paths : obj' = Convert(obj, p)
       /\ hops' = hops + 1
       /\ UNCHANGED dumped

\* writes the case list for the driver
Dump == /\ ~dumped
        /\ dumped' = TRUE
        /\ JsonSerialize("codec_cases.json",
                         [ events |-> SetToSeq(EventCases), blocks |-> SetToSeq(BlockCases), frames |-> SetToSeq(FrameCases) ])
        /\ UNCHANGED << obj, hops >>

Next == Hop \/ Dump
Spec == Init /\ [][Next]_<< obj, hops, dumped >>

KeepsIdentity == Identity([ hash |-> "h", sigok |-> TRUE, payload |-> "p" ], obj)
NCases == Cardinality(EventCases) + Cardinality(BlockCases) + Cardinality(FrameCases)
=============================================================================
