----------------------------- MODULE Hashgraph -----------------------------
(***************************************************************************)
(* The consensus engine of Babble as src/hashgraph/hashgraph.go performs   *)
(* it, together with the commit callback of src/node/core.go (commit,      *)
(* signBlock, processAcceptedInternalTransactions), written as operators   *)
(* over one node's state record  h  and the global event table  D.         *)
(*                                                                         *)
(* The operators follow the code, not the whitepaper (DESIGN.md, App. A):  *)
(*  - coordinates: lastAncestors / firstDescendants, with the first-       *)
(*    descendant walk that stops at witnesses;                             *)
(*  - rounds / witnesses / Lamport timestamps are computed once, when the  *)
(*    event is divided, with the peer-set table as it is at that moment;   *)
(*  - fame is recomputed from scratch on every pass for undecided          *)
(*    witnesses of pending rounds; the decision threshold is the           *)
(*    super-majority of the voting round's set;                            *)
(*  - "decided" is sticky; rounds at or below the reset lower bound are    *)
(*    skipped; a block exists only for a frame with payload.               *)
(*                                                                         *)
(* D[e] = [c, i, sp, op, txs, itxs, sigs, ts, sr, mid, ok]                 *)
(*   c creator, i index, sp/op parents (NoEv if none), txs sequence of     *)
(*   transaction ids, itxs sequence of [id, typ, peer, ok(app accepts),    *)
(*   sig(valid signature)], sigs sequence of [blk, q] block signatures,    *)
(*   ts claimed creation time, sr tie-break key (signature R, as a pair),  *)
(*   mid coin bit, ok event signature valid.                               *)
(***************************************************************************)
EXTENDS BabbleBase, SequencesExt

CONSTANTS Creators,         \* set of creator ids (integers)
          NoEv,             \* marker "no event" of the event-id type
          RootDepth,        \* ROOT_DEPTH (10 in the code)
          ActivationDelay,  \* 6 in the code (round-received + 6)
          CoinFreq,         \* COIN_ROUND_FREQ (4 in the code)
          CheckIndex        \* TRUE: admission requires index = height (after fix A)

INF == 1000000          \* "no first descendant"
MININT == -1000000      \* math.MinInt32 stand-in

-----------------------------------------------------------------------------
(* Peer-set table: PeerSetCache.Get                                        *)

PSAt(h, r) ==
    LET rs == DOMAIN h.ps
        lo == MinOfSet(rs, 0)
    IN  IF r \in rs THEN h.ps[r]
        ELSE IF r < lo THEN h.ps[lo]
        ELSE h.ps[MaxOfSet({x \in rs : x <= r}, lo)]

Members(h, r) == Range(PSAt(h, r))
SMAt(h, r) == SuperMajority(Cardinality(Members(h, r)))
Repertoire(h) == UNION { Range(h.ps[r]) : r \in DOMAIN h.ps }
FirstRoundOf(h, c) == MinOfSet({ r \in DOMAIN h.ps : c \in Range(h.ps[r]) }, INF)

-----------------------------------------------------------------------------
(* Empty state.  me = creator id of the node's own key (0: observer)       *)

EmptyRound == [ ev |-> EmptyFun, rcv |-> << >>, dec |-> FALSE ]

InitHG(genesis, me) ==
    [ me      |-> me,
      ins     |-> << >>,                          \* insertion (topological) order
      E       |-> EmptyFun,                       \* per-event computed values
      pe      |-> Strict([ c \in Creators |-> EmptyFun ]),\* per-creator index -> event
      R       |-> EmptyFun,                       \* rounds
      lastRound |-> -1,
      pend    |-> EmptyFun,                       \* pending round -> decided?
      undet   |-> << >>,
      lcr     |-> -1,
      lb      |-> -1,
      ps      |-> (0 :> genesis),
      blocks  |-> EmptyFun,
      lastBlock |-> -1,
      frames  |-> EmptyFun,
      lce     |-> Strict([ c \in Creators |-> NoEv ]),    \* last consensus event per creator
      sigpool |-> EmptyFun,                     \* SigPool: << block index, signer >> -> quality (keyed like the code's map)
      anchor  |-> -1,
      loaded  |-> 0,                              \* PendingLoadedEvents
      topo    |-> 0,
      ambig   |-> FALSE,                          \* two voters decided a fame differently
      \* core.go commit-side state
      validators |-> genesis,
      selfSigs   |-> {},
      removedRound |-> -1,
      targetRound  |-> -1,
      lastPeerChange |-> -1,
      psErr   |-> FALSE,                          \* SetPeerSet refused an existing round
      out     |-> << >> ]                         \* blocks handed to the application

Known(h, e) == e \in DOMAIN h.E

LastFrom(h, c) ==
    IF DOMAIN h.pe[c] = {} THEN NoEv
    ELSE h.pe[c][MaxOfSet(DOMAIN h.pe[c], 0)]

KnownMap(h) == [ c \in Repertoire(h) |-> MaxOfSet(DOMAIN h.pe[c], -1) ]

IsLoaded(D, e) == D[e].i = 0 \/ D[e].txs # << >> \/ D[e].itxs # << >>

-----------------------------------------------------------------------------
(* Admission: InsertEvent's checks, in the code's order                    *)

SigOK(D, e) == D[e].ok /\ \A k \in DOMAIN D[e].itxs : D[e].itxs[k].sig

SelfParentOK(D, h, e) ==
    LET c == D[e].c IN
    /\ c \in Repertoire(h)
    /\ IF DOMAIN h.pe[c] = {} THEN D[e].sp = NoEv
       ELSE D[e].sp = LastFrom(h, c)

OtherParentOK(D, h, e) == D[e].op = NoEv \/ Known(h, D[e].op)

IndexOK(D, h, e) ==
    ~CheckIndex \/
    IF D[e].sp = NoEv THEN D[e].i = 0 ELSE D[e].i = D[D[e].sp].i + 1

Admissible(D, h, e) ==
    /\ ~Known(h, e)
    /\ SigOK(D, e)
    /\ SelfParentOK(D, h, e)
    /\ IndexOK(D, h, e)
    /\ OtherParentOK(D, h, e)

-----------------------------------------------------------------------------
(* Coordinates                                                             *)

InitLA(D, h, e) ==
    LET sp == D[e].sp
        op == D[e].op
        spk == sp # NoEv /\ Known(h, sp)
        opk == op # NoEv /\ Known(h, op)
        base == Strict([ c \in Creators |->
                    MaxI(IF spk THEN h.E[sp].la[c] ELSE -1,
                        IF opk THEN h.E[op].la[c] ELSE -1) ])
    IN  [ base EXCEPT ![D[e].c] = D[e].i ]

InitFD(D, e) == Strict([ c \in Creators |-> IF c = D[e].c THEN D[e].i ELSE INF ])

\* updateAncestorFirstDescendant: walk down the self-parent chain of one
\* last-ancestor, stop at an entry already set or just after a witness.
RECURSIVE WalkFD(_, _, _, _, _)
WalkFD(D, E, a, cr, idx) ==
    IF a = NoEv \/ a \notin DOMAIN E THEN E
    ELSE IF E[a].fd[cr] # INF THEN E
    ELSE LET E1 == [ E EXCEPT ![a].fd[cr] = idx ] IN
         IF E[a].wit THEN E1 ELSE WalkFD(D, E1, D[a].sp, cr, idx)

RECURSIVE FoldFD(_, _, _, _, _)
FoldFD(D, pe, E, cs, e) ==
    IF cs = {} THEN E
    ELSE LET c == CHOOSE x \in cs : TRUE
             li == E[e].la[c]
             a  == IF li >= 0 /\ li \in DOMAIN pe[c] THEN pe[c][li] ELSE NoEv
             \* the code follows the stored hash; with fork-free chains that is
             \* the creator's event at that index (absent below a reset frame)
             E1 == IF a = e THEN E ELSE WalkFD(D, E, a, D[e].c, D[e].i)
         IN  FoldFD(D, pe, E1, cs \ {c}, e)

-----------------------------------------------------------------------------
(* See / strongly see, as coordinate comparisons                           *)

See(D, E, x, y) == E[x].la[D[y].c] >= D[y].i

SSee(E, x, y, P) ==
    Cardinality({ c \in P : /\ E[x].la[c] >= 0
                            /\ E[y].fd[c] # INF
                            /\ E[x].la[c] >= E[y].fd[c] })
        >= SuperMajority(Cardinality(P))

Witnesses(Ri) == { x \in DOMAIN Ri.ev : Ri.ev[x].w }
FamousOf(Ri)  == { x \in DOMAIN Ri.ev : Ri.ev[x].w /\ Ri.ev[x].f = "T" }

\* RoundInfo.WitnessesDecided without the sticky side effect
RoundDecidedNow(Ri, n) ==
    LET ws == Witnesses(Ri) IN
    /\ \A x \in ws : Ri.ev[x].f # "U"
    /\ Cardinality(ws) >= SuperMajority(n)

RoundDecided(Ri, n) == Ri.dec \/ RoundDecidedNow(Ri, n)

-----------------------------------------------------------------------------
(* InsertEvent (after admission)                                           *)

\* SigPool.Add: keyed by (block index, validator); a later signature with the
\* same key replaces the earlier one
RECURSIVE AddSigs(_, _, _, _)
AddSigs(pool, c, sigs, k) ==
    IF k > Len(sigs) THEN pool
    ELSE AddSigs(Ext(pool, << sigs[k].blk, c >>, sigs[k].q), c, sigs, k + 1)

InsertEvent(D, h, e) ==
    LET c  == D[e].c
        rec == [ la |-> InitLA(D, h, e), fd |-> InitFD(D, e),
                 rnd |-> -1, wit |-> FALSE, lt |-> -1, rr |-> -1 ]
        E0 == Ext(h.E, e, rec)
        pe1 == [ h.pe EXCEPT ![c] = Ext(@, D[e].i, e) ]
        E1 == FoldFD(D, pe1, E0, { x \in Creators : rec.la[x] >= 0 }, e)
    IN  [ h EXCEPT !.E = E1,
                   !.pe = pe1,
                   !.ins = Append(@, e),
                   !.undet = Append(@, e),
                   !.topo = @ + 1,
                   !.loaded = IF IsLoaded(D, e) THEN @ + 1 ELSE @,
                   !.sigpool = AddSigs(@, c, D[e].sigs, 1) ]

-----------------------------------------------------------------------------
(* DivideRounds for one undivided event                                    *)

ParentRound(D, h, e) ==
    LET sp == D[e].sp
        op == D[e].op
    IN  MaxI(IF sp # NoEv /\ Known(h, sp) THEN h.E[sp].rnd ELSE -1,
            IF op # NoEv /\ Known(h, op) THEN h.E[op].rnd ELSE -1)

RoundOf(D, h, e) ==
    LET pr == ParentRound(D, h, e) IN
    IF pr = -1 THEN 0
    ELSE LET P  == Members(h, pr)
             Ri == Get(h.R, pr, EmptyRound)
             c  == Cardinality({ w \in Witnesses(Ri) : SSee(h.E, e, w, P) })
         IN  IF c >= SuperMajority(Cardinality(P)) THEN pr + 1 ELSE pr

WitnessOf(D, h, e, r) ==
    LET sp == D[e].sp
        spr == IF sp # NoEv /\ Known(h, sp) THEN h.E[sp].rnd ELSE -1
    IN  D[e].c \in Members(h, r) /\ r > spr

LamportOf(D, h, e) ==
    LET sp == D[e].sp
        op == D[e].op
        a == IF sp # NoEv /\ Known(h, sp) THEN h.E[sp].lt ELSE -1
        b == IF op # NoEv /\ Known(h, op) THEN h.E[op].lt ELSE MININT
    IN  MaxI(a, b) + 1

DivideOne(D, h, e) ==
    IF h.E[e].rnd # -1 THEN h
    ELSE
    LET r   == RoundOf(D, h, e)
        Ri  == Get(h.R, r, EmptyRound)
        queue == r \notin DOMAIN h.pend /\ ~Ri.dec /\ (h.lb = -1 \/ r > h.lb)
        w   == WitnessOf(D, h, e, r)
        Ri1 == [ Ri EXCEPT !.ev = IF e \in DOMAIN @ THEN @ ELSE Ext(@, e, [ w |-> w, f |-> "U" ]) ]
        lt  == LamportOf(D, h, e)
    IN  [ h EXCEPT !.E[e].rnd = r, !.E[e].wit = w, !.E[e].lt = lt,
                   !.R = Ext(@, r, Ri1),
                   !.lastRound = MaxI(@, r),
                   !.pend = IF queue THEN Ext(@, r, FALSE) ELSE @ ]

RECURSIVE DivideSeq(_, _, _)
DivideSeq(D, h, es) ==
    IF es = << >> THEN h ELSE DivideSeq(D, DivideOne(D, h, Head(es)), Tail(es))

\* (only the events that have no round yet; DivideOne is a no-op for the others)
DivideRounds(D, h) == DivideSeq(D, h, SelectSeq(h.undet, LAMBDA e : h.E[e].rnd = -1))

-----------------------------------------------------------------------------
(* DecideFame                                                              *)

\* One voting round j for witness x of round r.  prev: votes of round j-1.
VoteRound(D, h, x, r, j, prev) ==
    LET Wj == Witnesses(h.R[j]) IN
    IF j = r + 1
    THEN [ votes |-> Strict([ y \in Wj |-> See(D, h.E, y, x) ]), dec |-> "U" ]
    ELSE
    LET Pp  == Members(h, j - 1)
        Wp  == Witnesses(h.R[j - 1])
        ss(y)   == { w \in Wp : SSee(h.E, y, w, Pp) }
        yays(y) == Cardinality({ w \in ss(y) : prev[w] })
        nays(y) == Cardinality(ss(y)) - yays(y)
        v(y) == yays(y) >= nays(y)
        t(y) == IF v(y) THEN yays(y) ELSE nays(y)
        sm  == SMAt(h, j)
        normal == (j - r) % CoinFreq # 0
        deciders == IF normal THEN { y \in Wj : t(y) >= sm } ELSE {}
    IN  [ votes |-> Strict([ y \in Wj |-> IF normal \/ t(y) >= sm THEN v(y) ELSE D[y].mid ]),
          dec   |-> IF deciders = {} THEN "U"
                    ELSE IF \A y \in deciders : v(y) THEN "T"
                    ELSE IF \A y \in deciders : ~v(y) THEN "F"
                    ELSE "A" ]

RECURSIVE FameLoop(_, _, _, _, _, _)
FameLoop(D, h, x, r, j, prev) ==
    IF j > h.lastRound \/ j \notin DOMAIN h.R THEN "U"
    ELSE LET s == VoteRound(D, h, x, r, j, prev) IN
         IF s.dec # "U" THEN s.dec ELSE FameLoop(D, h, x, r, j + 1, s.votes)

FameOf(D, h, x, r) == FameLoop(D, h, x, r, r + 1, EmptyFun)

DecideFameRound(D, h, r) ==
    LET Ri == h.R[r]
        und == { x \in Witnesses(Ri) : Ri.ev[x].f = "U" }
        res == Strict([ x \in und |-> FameOf(D, h, x, r) ])
        amb == \E x \in und : res[x] = "A"
        ev1 == Strict([ x \in DOMAIN Ri.ev |->
                   IF x \in und /\ res[x] # "U"
                   THEN [ Ri.ev[x] EXCEPT !.f = IF res[x] = "F" THEN "F" ELSE "T" ]
                   ELSE Ri.ev[x] ])
        Ri1 == [ Ri EXCEPT !.ev = ev1 ]
        dec == RoundDecided(Ri1, Cardinality(Members(h, r)))
        Ri2 == [ Ri1 EXCEPT !.dec = dec ]
    IN  [ h EXCEPT !.R[r] = Ri2,
                   !.pend[r] = @ \/ dec,
                   !.ambig = @ \/ amb ]

RECURSIVE DecideFameSet(_, _, _)
DecideFameSet(D, h, rs) ==
    IF rs = {} THEN h
    ELSE LET r == MinOfSet(rs, 0) IN DecideFameSet(D, DecideFameRound(D, h, r), rs \ {r})

\* fame of one round does not depend on fame of another: order is immaterial
DecideFame(D, h) == DecideFameSet(D, h, DOMAIN h.pend)

-----------------------------------------------------------------------------
(* DecideRoundReceived                                                     *)

\* The rounds above the lower bound at which a scan stops: missing, or not
\* decided (rounds at or below the lower bound are skipped, not stops).  A
\* round can be decided before an earlier one, so each event stops at the
\* first such round at or after the start of ITS scan.
StopRounds(h) ==
    { i \in (h.lb + 1)..(h.lastRound + 1) :
         \/ i > h.lastRound
         \/ i \notin DOMAIN h.R
         \/ ~RoundDecided(h.R[i], Cardinality(Members(h, i))) }

StopFor(h, stops, i0) == MinOfSet({ s \in stops : s >= i0 }, h.lastRound + 1)

\* the code's loop: i from round(x)+1; a missing round ends it; an undecided
\* round ends it unless it is at or below the lower bound; the first decided
\* round whose famous witnesses all see x (and are a super-majority) receives x
RECURSIVE RRScan(_, _, _, _, _)
RRScan(D, h, x, i, stop) ==
    IF i >= stop /\ i > h.lb THEN -1
    ELSE IF i > h.lastRound THEN -1
    \* a round that is not known at all: skipped at or below the lower bound (after
    \* a fast-forward the rounds between an old event's round and the anchor are
    \* missing - fix "missing rounds below the lower bound"), a stop above it
    ELSE IF i \notin DOMAIN h.R THEN (IF i <= h.lb THEN RRScan(D, h, x, i + 1, stop) ELSE -1)
    ELSE
    LET Ri == h.R[i]
        n  == Cardinality(Members(h, i))
    IN  IF i <= h.lb /\ ~RoundDecided(Ri, n) THEN RRScan(D, h, x, i + 1, stop)
        ELSE LET fws == FamousOf(Ri) IN
             IF (\A w \in fws : See(D, h.E, w, x)) /\ Cardinality(fws) >= SuperMajority(n)
             THEN i
             ELSE RRScan(D, h, x, i + 1, stop)

\* The scan of one event does not depend on what the pass assigns to others
\* (only on rounds, fame and coordinates), so the pass is: scan every
\* undetermined event, then record the received ones in queue order.
RECURSIVE RecordReceived(_, _, _)
RecordReceived(h, es, rrs) ==
    IF es = << >> THEN h
    ELSE LET x == Head(es)
             i == rrs[x]
         IN  RecordReceived([ h EXCEPT !.E[x].rr = i, !.R[i].rcv = Append(@, x) ], Tail(es), rrs)

DecideRoundReceived(D, h) ==
    LET stops == StopRounds(h)
        rrs == Strict([ x \in Range(h.undet) |->
                         RRScan(D, h, x, h.E[x].rnd + 1, StopFor(h, stops, h.E[x].rnd + 1)) ])
        got == SelectSeq(h.undet, LAMBDA x : rrs[x] # -1)
        keep == SelectSeq(h.undet, LAMBDA x : rrs[x] = -1)
    IN  IF got = << >> THEN h
        ELSE [ RecordReceived(h, got, rrs) EXCEPT !.undet = keep ]

-----------------------------------------------------------------------------
(* Frames, roots, blocks                                                   *)

FrameLess(D, E, a, b) ==
    \/ E[a].lt < E[b].lt
    \/ /\ E[a].lt = E[b].lt
       /\ \/ D[a].sr[1] < D[b].sr[1]
          \/ D[a].sr[1] = D[b].sr[1] /\ D[a].sr[2] < D[b].sr[2]

\* createRoot: head and up to RootDepth self-ancestors, oldest first
RECURSIVE RootDown(_, _, _, _)
RootDown(pec, idx, k, acc) ==
    IF k = 0 \/ idx < 0 \/ idx \notin DOMAIN pec THEN acc
    ELSE RootDown(pec, idx - 1, k - 1, << pec[idx] >> \o acc)

CreateRoot(D, h, p, head) ==
    IF head = NoEv \/ ~Known(h, head) THEN << >>
    ELSE RootDown(h.pe[p], D[head].i - 1, RootDepth, << head >>)

GetFrame(D, h, r) ==
    IF r \in DOMAIN h.frames THEN h.frames[r]
    ELSE
    LET evs == SortSeq(h.R[r].rcv, LAMBDA a, b : FrameLess(D, h.E, a, b))
        cs  == { D[evs[k]].c : k \in DOMAIN evs }
        first(p) == evs[CHOOSE k \in DOMAIN evs : D[evs[k]].c = p /\ \A m \in 1..(k-1) : D[evs[m]].c # p]
        others == { p \in Repertoire(h) \ cs : FirstRoundOf(h, p) <= r }
        roots == Strict([ p \in cs \cup others |->
                     IF p \in cs THEN CreateRoot(D, h, p, D[first(p)].sp)
                     ELSE CreateRoot(D, h, p, h.lce[p]) ])
        fws == FamousOf(h.R[r])
    IN  [ round |-> r, peers |-> PSAt(h, r), roots |-> roots, evs |-> evs,
          psets |-> h.ps, fws |-> fws,
          tss |-> SetToSortSeq({ << D[w].ts, w >> : w \in fws },
                               LAMBDA a, b : a[1] < b[1] \/ (a[1] = b[1] /\ a[2] # b[2] /\ FrameLess(D, h.E, a[2], b[2]))) ]

FrameTimestamps(f) == Strict([ k \in DOMAIN f.tss |-> f.tss[k][1] ])

BlockOfFrame(D, idx, f) ==
    [ idx |-> idx, rr |-> f.round, evs |-> f.evs,
      txs  |-> Flatten(Strict([ k \in DOMAIN f.evs |-> D[f.evs[k]].txs ])),
      itxs |-> Flatten(Strict([ k \in DOMAIN f.evs |-> D[f.evs[k]].itxs ])),
      rcpt |-> << >>,
      ts   |-> MedianTS(FrameTimestamps(f)),
      peers |-> f.peers, fws |-> f.fws, sigs |-> {} ]

\* core.processAcceptedInternalTransactions: fold the accepted receipts
RECURSIVE ApplyReceipts(_, _)
ApplyReceipts(vals, itxs) ==
    IF itxs = << >> THEN vals
    ELSE LET t == Head(itxs)
             v1 == IF ~t.ok THEN vals
                   ELSE IF t.typ = "add"
                        THEN IF SeqContains(vals, t.peer) THEN vals ELSE Append(vals, t.peer)
                        ELSE SeqFilterOut(vals, t.peer)
         IN  ApplyReceipts(v1, Tail(itxs))

\* core.processAcceptedInternalTransactions(roundReceived, receipts): the new
\* set (the latest validators +- the accepted peers) becomes effective at
\* round-received + ActivationDelay.  itxs carry the application's answer (ok).
ApplyMembership(h, rr, itxs, me) ==
    LET changed == \E k \in DOMAIN itxs : itxs[k].ok
        eff == rr + ActivationDelay
        vals1 == ApplyReceipts(h.validators, itxs)
        clash == changed /\ eff \in DOMAIN h.ps
        selfRemoved == \E k \in DOMAIN itxs : itxs[k].ok /\ itxs[k].typ = "rem" /\ itxs[k].peer = me
        h1 == [ h EXCEPT !.removedRound = IF selfRemoved THEN eff ELSE @ ]
    IN  IF ~changed THEN h1
        ELSE IF clash THEN [ h1 EXCEPT !.psErr = TRUE, !.lastPeerChange = eff ]
        ELSE [ h1 EXCEPT !.ps = Ext(@, eff, vals1),
                         !.validators = vals1,
                         !.lastPeerChange = eff,
                         !.targetRound = MaxI(@, eff) ]

\* core.commit with a deterministic application
CoreCommit(D, h, b) ==
    LET member == h.me \in Members(h, b.rr)
        b1 == [ b EXCEPT !.rcpt = Strict([ k \in DOMAIN b.itxs |-> b.itxs[k].ok ]),
                         !.sigs = IF member THEN { h.me } ELSE {} ]
        n  == Cardinality(Members(h, b.rr))
        anchor1 == IF Cardinality(b1.sigs) > TrustCount(n) /\ (h.anchor = -1 \/ b.idx > h.anchor)
                   THEN b.idx ELSE h.anchor
        h1 == [ h EXCEPT !.blocks = Ext(@, b.idx, b1),
                         !.lastBlock = MaxI(@, b.idx),
                         !.out = Append(@, b1),
                         !.selfSigs = IF member THEN @ \cup { b.idx } ELSE @,
                         !.anchor = anchor1 ]
    IN  ApplyMembership(h1, b.rr, b.itxs, h.me)

\* one decided pending round
ProcessRound(D, h, r) ==
    LET f  == GetFrame(D, h, r)
        h0 == [ h EXCEPT !.frames = Ext(@, r, f) ]
        nload == Cardinality({ k \in DOMAIN f.evs : IsLoaded(D, f.evs[k]) })
        RECURSIVE lceFold(_, _)
        lceFold(l, es) == IF es = << >> THEN l
                          ELSE lceFold([ l EXCEPT ![D[Head(es)].c] = Head(es) ], Tail(es))
        h1 == IF f.evs = << >> THEN h0
              ELSE [ h0 EXCEPT !.lce = lceFold(@, f.evs), !.loaded = @ - nload ]
        b  == BlockOfFrame(D, h1.lastBlock + 1, f)
        h2 == IF f.evs # << >> /\ (b.txs # << >> \/ b.itxs # << >>)
              THEN CoreCommit(D, h1, b) ELSE h1
    IN  [ h2 EXCEPT !.pend = Without(@, r),
                    !.lcr = MaxI(@, r) ]

RECURSIVE ProcessDecidedRounds(_, _)
ProcessDecidedRounds(D, h) ==
    IF DOMAIN h.pend = {} THEN h
    ELSE LET r == MinOfSet(DOMAIN h.pend, 0) IN
         IF ~h.pend[r] THEN h
         ELSE ProcessDecidedRounds(D, ProcessRound(D, h, r))

-----------------------------------------------------------------------------
(* InsertEventAndRunConsensus                                              *)

RunConsensus(D, h) ==
    ProcessDecidedRounds(D, DecideRoundReceived(D, DecideFame(D, DivideRounds(D, h))))

InsertAndRun(D, h, e) == RunConsensus(D, InsertEvent(D, h, e))

\* Insertions batched between consensus passes (not what a node does - core.sync
\* runs the passes after every event - but what the public Hashgraph API allows):
\* k events are inserted, then one pass; k = 0: everything first, one pass at the
\* end.  InsertEvent's first-descendant walk (WalkFD) stops at ancestors that are
\* witnesses; an ancestor that has not been through DivideRounds yet is not known
\* to be one, so a batched insertion walks further down than a per-event one and
\* strongly-see can differ (known finding C03/batched-consensus-passes).
RECURSIVE InsertSeq(_, _, _)
InsertSeq(D, h, es) ==
    IF es = << >> THEN h ELSE InsertSeq(D, InsertEvent(D, h, Head(es)), Tail(es))

RECURSIVE BatchedRun(_, _, _, _)
BatchedRun(D, h, es, k) ==
    IF es = << >> THEN h
    ELSE IF k = 0 \/ Len(es) <= k THEN RunConsensus(D, InsertSeq(D, h, es))
    ELSE BatchedRun(D, RunConsensus(D, InsertSeq(D, h, SubSeq(es, 1, k))), SubSeq(es, k + 1, Len(es)), k)

RECURSIVE InsertAllAndRun(_, _, _)
InsertAllAndRun(D, h, es) ==
    IF es = << >> THEN h
    ELSE InsertAllAndRun(D, InsertAndRun(D, h, Head(es)), Tail(es))

-----------------------------------------------------------------------------
(* ProcessSigPool and SetAnchorBlock                                       *)
(* q = "good": verifies against the receiving node's body of that block,   *)
(* "bad": does not verify, "mal": malformed encoding (the pass aborts).    *)

\* key = << block index, signer >>
SigReady(h, key) ==
    /\ key[1] \in DOMAIN h.blocks
    /\ key[2] \in Members(h, h.blocks[key[1]].rr)

RECURSIVE SigFold(_, _)
SigFold(h, ks) ==
    IF ks = {} THEN h
    ELSE LET key == CHOOSE x \in ks : TRUE IN
         IF ~(SigReady(h, key) /\ h.sigpool[key] = "good") THEN SigFold(h, ks \ {key})
         ELSE LET b1 == [ h.blocks[key[1]] EXCEPT !.sigs = @ \cup { key[2] } ]
                  n  == Cardinality(Members(h, b1.rr))
                  a1 == IF Cardinality(b1.sigs) > TrustCount(n) /\ (h.anchor = -1 \/ b1.idx > h.anchor)
                        THEN b1.idx ELSE h.anchor
              IN  SigFold([ h EXCEPT !.blocks[key[1]] = b1, !.anchor = a1,
                                      !.sigpool = Without(@, key) ], ks \ {key})

\* A malformed signature whose block and signer are known aborts the pass at
\* an unspecified position (map order); the spec takes the "nothing processed
\* after it" reading only as an allowed outcome - see Trace.tla.
SigPoolBlocked(h) == \E key \in DOMAIN h.sigpool : SigReady(h, key) /\ h.sigpool[key] = "mal"

ProcessSigPool(h) == SigFold(h, DOMAIN h.sigpool)

-----------------------------------------------------------------------------
(* Reset from a frame (fast-sync) and InsertFrameEvent                     *)
(* fr = [round, peers, roots, evs, psets, info]  with info[e] = [rnd,wit,lt]*)

FrameAllEvents(D, fr) ==
    LET ids == UNION { Range(fr.roots[p]) : p \in DOMAIN fr.roots } \cup Range(fr.evs)
    IN  SetToSortSeq(ids, LAMBDA a, b :
            \/ fr.info[a].lt < fr.info[b].lt
            \/ /\ fr.info[a].lt = fr.info[b].lt
               /\ \/ D[a].sr[1] < D[b].sr[1]
                  \/ D[a].sr[1] = D[b].sr[1] /\ D[a].sr[2] < D[b].sr[2])

InsertFrameEvent(D, h, fr, e) ==
    LET c  == D[e].c
        inf == fr.info[e]
        rec == [ la |-> InitLA(D, h, e), fd |-> InitFD(D, e),
                 rnd |-> inf.rnd, wit |-> inf.wit, lt |-> inf.lt, rr |-> -1 ]
        E0 == Ext(h.E, e, rec)
        pe1 == [ h.pe EXCEPT ![c] = Ext(@, D[e].i, e) ]
        E1 == FoldFD(D, pe1, E0, { x \in Creators : rec.la[x] >= 0 }, e)
        Ri == Get(h.R, inf.rnd, EmptyRound)
        Ri1 == [ Ri EXCEPT !.ev = IF e \in DOMAIN @ THEN @ ELSE Ext(@, e, [ w |-> inf.wit, f |-> "U" ]) ]
    IN  [ h EXCEPT !.E = E1, !.pe = pe1, !.ins = Append(@, e),
                   !.R = Ext(@, inf.rnd, Ri1),
                   !.lastRound = MaxI(@, inf.rnd),
                   !.lce[c] = e ]

RECURSIVE InsertFrameEvents(_, _, _, _)
InsertFrameEvents(D, h, fr, es) ==
    IF es = << >> THEN h
    ELSE InsertFrameEvents(D, InsertFrameEvent(D, h, fr, Head(es)), fr, Tail(es))

Reset(D, h, blk, fr) ==
    LET base == InitHG(<< >>, h.me)
        h0 == [ base EXCEPT !.ps = fr.psets,
                            !.frames = (fr.round :> fr),
                            !.sigpool = h.sigpool,          \* PendingSignatures is not cleared by Reset
                            \* core.fastForward: the latest set of the frame's peer-set history
                            \* (before fix "validators after fast-forward": fr.peers, the set
                            \* effective at the frame's round - see MUT_ffValidators in DESIGN.md)
                            !.validators = IF DOMAIN fr.psets = {} THEN fr.peers
                                           ELSE fr.psets[MaxOfSet(DOMAIN fr.psets, 0)],
                            !.selfSigs = h.selfSigs,
                            !.removedRound = h.removedRound,
                            !.targetRound = h.targetRound,
                            !.lastPeerChange = h.lastPeerChange,
                            !.out = h.out ]
        h1 == InsertFrameEvents(D, h0, fr, FrameAllEvents(D, fr))
    IN  [ h1 EXCEPT !.blocks = (blk.idx :> blk),
                    !.lastBlock = blk.idx,
                    !.lcr = blk.rr,
                    !.lb = blk.rr ]

-----------------------------------------------------------------------------
(* Graph-level reference predicates (independent of coordinates)           *)

RECURSIVE AncSet(_, _)
AncSet(D, e) ==
    IF e = NoEv \/ e \notin DOMAIN D THEN {}
    ELSE {e} \cup AncSet(D, D[e].sp) \cup AncSet(D, D[e].op)

IsAncestor(D, x, y) == y \in AncSet(D, x)      \* y is an ancestor of x (or x)

=============================================================================
