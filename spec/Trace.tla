------------------------------- MODULE Trace -------------------------------
(***************************************************************************)
(* Trace specification: re-executes the actions of Core.tla/Hashgraph.tla  *)
(* on the arguments recorded from the real implementation (ndjson, one     *)
(* line per action) and evaluates, after every line,                       *)
(*   - the property invariants  Inv_Cxx_*  on the OBSERVED implementation  *)
(*     state (delivered blocks, stored blocks, the driver's DAG record),   *)
(*   - the conformance checks  Conf_*  : each deterministic result of the  *)
(*     specification equals the value the implementation logged.           *)
(* Trace actions are total: every line is consumed whatever the checks     *)
(* say; failed checks are accumulated in  viol  (property violations) and  *)
(* drift  (specification/implementation mismatch) and printed at the end.  *)
(* Many traces are concatenated in one file; an "Init" line resets.        *)
(***************************************************************************)
EXTENDS Core, Store, CodecCases, ProxyCases, NodeGate, SelectorOps, Json, IOUtils

TraceFile == IOEnv.TRACE_FILE
Trace == ndJsonDeserialize(TraceFile)
NLines == Len(Trace)

\* largest creator number over all trace segments of the file (the runner scans
\* the file; evaluating it here on every reference would be quadratic)
TraceCreators == 1..atoi(IOEnv.TRACE_NC)

VARIABLES l,        \* index of the next line
          D,        \* event table (from Create lines)
          nodes,    \* node number -> Core record (the specification's state)
          dlv,      \* node number -> blocks the implementation delivered (observed)
          sto,      \* node number -> last observed store listing
          psto,     \* node number -> previous observed store listing
          rrv,      \* node number -> (event -> round-received as observed)
          meta,     \* the x record of the segment's Init line (scenario parameters)
          ref,      \* C03: complete output of the reference instance of the segment
          cev,      \* node number -> set of committed event ids (observed)
          ctx,      \* node number -> bag of committed transactions (observed)
          base,     \* node number -> [idx, ps]: fast-sync anchor index (-1: none) and the validator-set table right after adoption
          last,     \* node number -> [lcr, ps] as last observed (C10)
          pools,    \* node number -> transaction pool as last observed
          lostSet,  \* nodes that suffered an injected store fault (no longer "honest full-history" nodes)
          evals,    \* C03: event -> << round, witness, lamport >> as first reported by any node
          fames,    \* C03: witness -> fame as first decided by any node
          sub,      \* submitted transaction ids -> node
          viol,     \* accumulated property violations
          drift,    \* accumulated conformance mismatches
          pst,      \* node number -> Store.tla model of its persistent store (from StW lines)
          stats     \* counters (for vacuity control)

vars == << l, D, nodes, dlv, sto, psto, rrv, meta, ref, cev, ctx, base, last, pools, lostSet, evals, fames, sub, viol, drift, pst, stats >>

Line == Trace[l]
NodeNums == DOMAIN nodes

SeqToSet(s) == { s[i] : i \in DOMAIN s }
AsSeq(s) == Strict([ i \in 1..Len(s) |-> s[i] ])

FunOfSeq(sq, key(_), val(_)) ==
    Strict([ e \in { key(sq[k]) : k \in 1..Len(sq) } |->
               val(sq[CHOOSE k \in 1..Len(sq) : key(sq[k]) = e]) ])



EvRec(x) ==
    [ c |-> x.c, i |-> x.i, sp |-> x.sp, op |-> x.op,
      txs |-> AsSeq(x.txs),
      itxs |-> [ k \in 1..Len(x.itxs) |-> x.itxs[k] ],
      sigs |-> [ k \in 1..Len(x.sigs) |-> x.sigs[k] ],
      ts |-> x.ts, big |-> x.big, sr |-> << x.sr[1], x.sr[2] >>, mid |-> x.mid, ok |-> x.ok ]

Bump(s, k) == [ s EXCEPT ![k] = @ + 1 ]
Stats0 == [ lines |-> 0, syncs |-> 0, inserts |-> 0, blocks |-> 0, traces |-> 0,
            creates |-> 0, fameDecided |-> 0, coinVotes |-> 0, skipped |-> 0,
            stw |-> 0, str |-> 0, crashes |-> 0, boots |-> 0, codec |-> 0, proxy |-> 0 ]

-----------------------------------------------------------------------------
(* Property invariants on observed state                                   *)

BodyFields(b) == << b.idx, b.rr, b.txs, b.itxs, b.rcpt, b.fh, b.ph, b.ts, b.big, b.sh, b.dig >>

\* C01: any two nodes' delivered sequences agree index by index
BlockAt(dvn, idx) ==
    LET k == IF dvn = << >> THEN 0 ELSE idx - dvn[1].idx + 1 IN
    IF k \in 1..Len(dvn) /\ dvn[k].idx = idx THEN << dvn[k] >> ELSE << >>

Inv_C01_Agreement(dv, lost, n, from) ==
    \* (checked for the blocks node n delivered in this step against every
    \* other node's block with the same index; older ones were checked when
    \* the later of the two was delivered)
    n \in lost \/
    \A b \in (DOMAIN dv) \ (lost \cup {n}) :
        \A i \in from..Len(dv[n]) :
            LET ob == BlockAt(dv[b], dv[n][i].idx) IN
            ob = << >> \/ BodyFields(ob[1]) = BodyFields(dv[n][i])

\* C02: consecutive indexes from the first delivered one, rr strictly increasing
Inv_C02_Consecutive(dvn, from, baseIdx) ==
    \* delivery starts at 0, or at the block after a fast-sync anchor
    \A i \in from..Len(dvn) :
        /\ dvn[i].idx = baseIdx + i
        /\ i > 1 => dvn[i].rr > dvn[i-1].rr

\* C02: the store keeps reporting the delivered body (with state hash and
\* receipts: dig is the hash of the body including the application's answer)
\* (dig0: the application's reply to this commit was lost on its way to the node -
\* the call returned an error - so the node can only keep the body as handed over)
StoredDigOf(b) == IF "dig0" \in DOMAIN b THEN b.dig0 ELSE b.dig
Inv_C02_StoreKeepsDelivered(dvn, son) ==
    \A i \in 1..Len(dvn) :
        LET k == dvn[i].idx - (IF son = << >> THEN 0 ELSE son[1].idx) + 1 IN
        IF k \in 1..Len(son) /\ son[k].idx = dvn[i].idx
        THEN son[k].dig = StoredDigOf(dvn[i])
        ELSE \E j \in 1..Len(son) : son[j].idx = dvn[i].idx /\ son[j].dig = StoredDigOf(dvn[i])

\* C02: collected signatures only grow
SigSet(sb) == { << sb.sigs[k].by, sb.sigs[k].k >> : k \in 1..Len(sb.sigs) }
Inv_C02_SigsOnlyGrow(son, pson) ==
    \A k \in 1..Len(pson) :
        IF k <= Len(son) /\ son[k].idx = pson[k].idx
        THEN SigSet(pson[k]) \subseteq SigSet(son[k])
        ELSE \E j \in 1..Len(son) : son[j].idx = pson[k].idx /\ SigSet(pson[k]) \subseteq SigSet(son[j])

\* C04 on the driver's DAG record
CommittedEvs(dvn) == Flatten([ i \in 1..Len(dvn) |-> AsSeq(dvn[i].evs) ])
\* cevn: the events node n had committed before this step
Inv_C04_Once(cevn, o) ==
    LET newEvs == Flatten([ k \in 1..Len(o.blocks) |-> AsSeq(o.blocks[k].evs) ]) IN
    /\ \A i \in 1..Len(newEvs) : newEvs[i] \notin cevn
    /\ \A i, j \in 1..Len(newEvs) : i # j => newEvs[i] # newEvs[j]

\* ancestry comes from the parents recorded by the driver only.  rv: the
\* round-received the implementation reported for each event of this node.
\* (i) when a block is delivered, both parents of each of its events have
\* been received, in that round or an earlier one (a parent may be received
\* later in time than its child while an intermediate round is undecided, but
\* not later than the delivery of the child's block); by induction over
\* ancestry every ancestor is committed no later;
\* (ii) a block holds exactly the events received in its round, and inside it
\* parents precede children.  Blocks are delivered in increasing
\* round-received (C02), so the committed order extends ancestry.
Inv_C04_Causal(DD, rv, o, dvn, belowFrame, baseRR) ==
    LET hasPayload(r) == \E e \in DOMAIN rv : rv[e] = r /\ e \in DOMAIN DD /\ (DD[e].txs # << >> \/ DD[e].itxs # << >>)
        deliveredBefore(r, i) == \E j \in 1..(i - 1) : dvn[j].rr = r
    IN
    \A k \in 1..Len(o.blocks) :
        LET b == o.blocks[k]
            i == Len(dvn) - Len(o.blocks) + k          \* position of b in the delivered sequence
            \* the parent is received no later, and if its frame carries payload
            \* its block was delivered before this one
            okp(p) == p = "" \/ p \notin DOMAIN DD
                      \/ (belowFrame /\ p \notin DOMAIN rv)      \* not held: below the fast-sync frame
                      \/ (/\ p \in DOMAIN rv /\ rv[p] <= b.rr
                          /\ (rv[p] < b.rr /\ rv[p] > baseRR /\ hasPayload(rv[p])) => deliveredBefore(rv[p], i))
        IN  \A m \in 1..Len(b.evs) : okp(DD[b.evs[m]].sp) /\ okp(DD[b.evs[m]].op)

\* an event is never received in a round whose frame was already processed
\* (it would never be committed)
Inv_C04_NoLateReceive(lcrBefore, o) ==
    \A k \in 1..Len(o.rr) : o.rr[k].rr > lcrBefore

Inv_C04_BlockIsFrame(DD, rv, o) ==
    \A k \in 1..Len(o.blocks) :
        LET b == o.blocks[k]
            es == SeqToSet(b.evs)
            inOrder(i, p) == p \notin es \/ (PosIn(b.evs, p) < i)
        IN  /\ { e \in DOMAIN rv : rv[e] = b.rr } = es
            /\ \A i \in 1..Len(b.evs) : inOrder(i, DD[b.evs[i]].sp) /\ inOrder(i, DD[b.evs[i]].op)

Inv_C04_Payload(DD, dvn, fromIdx) ==
    \A i \in fromIdx..Len(dvn) :
        /\ AsSeq(dvn[i].txs) = Flatten([ k \in 1..Len(dvn[i].evs) |-> DD[dvn[i].evs[k]].txs ])
        /\ [ k \in 1..Len(dvn[i].itxs) |-> dvn[i].itxs[k].id ]
             = Flatten([ k \in 1..Len(dvn[i].evs) |->
                            [ m \in 1..Len(DD[dvn[i].evs[k]].itxs) |-> DD[dvn[i].evs[k]].itxs[m].id ] ])

\* sb: transaction id (content) -> sequence of the nodes it was submitted to
\* (one entry per submission: duplicate-content transactions are a multiset)
CountIn(sq, x) == Cardinality({ i \in DOMAIN sq : sq[i] = x })

\* C05: committed transactions were submitted; none committed more often than
\* submitted.  ctxn: bag (transaction -> count) node n had committed before.
NewTxs(o) == Flatten([ k \in 1..Len(o.blocks) |-> AsSeq(o.blocks[k].txs) ])
BagAdd(bag, ts) ==
    LET S == SeqToSet(ts) IN
    Strict([ t \in S |-> Get(bag, t, 0) + CountIn(ts, t) ]) @@ bag
Inv_C05_OnlySubmittedOnce(ctxn, o, sb) ==
    LET ts == NewTxs(o)
        bag == BagAdd(ctxn, ts)
    IN  \A t \in SeqToSet(ts) : t \in DOMAIN sb /\ bag[t] <= Len(sb[t])

\* C05: an accepted transaction is never dropped (neither pending nor in any
\* event of the node that accepted it) and never placed in more of its events
\* than it was submitted.  poolOf: the pools as last OBSERVED.
Inv_C05_NeverDropped(DD, nds, sb, poolOf, n, touched) ==
    \* checked for the transactions whose status can have changed in this step
    \* of node n: those in its pool before or after the step (the node's own
    \* events are only created in its own steps)
    LET own == { e \in DOMAIN DD : DD[e].c = nds[n].h.me } IN
    \A t \in touched \cap DOMAIN sb :
        LET want == CountIn(sb[t], n)
            inPool == CountIn(poolOf[n], t)
            placed == FoldSet(LAMBDA e, acc : acc + CountIn(DD[e].txs, t), 0, own)
        IN  placed <= want /\ placed + inPool >= want

\* C18: block timestamp is the median of the famous witnesses' claimed times
Inv_C18_IsMedian(DD, b) ==
    LET tss == [ k \in 1..Len(b.fws) |-> DD[b.fws[k]].ts ]
        br == MedianBracket(tss)
        \* values beyond +-2^28 are order-preserving markers, not exact
        exact(v) == v > -268435456 /\ v < 268435456
    IN  IF Len(b.fws) = 0 THEN TRUE
        ELSE IF exact(br[1]) /\ exact(br[2])
             THEN (~b.big) /\ b.ts = (br[1] + br[2]) \div 2
             ELSE br[1] <= b.ts /\ b.ts <= br[2]

\* C18: with fewer than a third of the round's validators lying, the block
\* timestamp lies within the range claimed by the honest famous witnesses
Inv_C18_Bounded(DD, b, liars) ==
    LET ps == SeqToSet(b.peers)
        hon == { w \in SeqToSet(b.fws) : DD[w].c \notin liars }
        hts == { DD[w].ts : w \in hon }
    IN  (3 * Cardinality(liars \cap ps) < Cardinality(ps) /\ hon # {}) =>
            (MinOfSet(hts, 0) <= b.ts /\ b.ts <= MaxOfSet(hts, 0))

Liars(mt) == IF "liars" \in DOMAIN mt THEN SeqToSet(mt.liars) ELSE {}

-----------------------------------------------------------------------------
(* C10: the validator-set history is a replayable function of the blocks  *)

PSTable(ps) == FunOfSeq(ps, LAMBDA v : v.r, LAMBDA v : AsSeq(v.peers))

LatestOf(tb) == tb[MaxOfSet(DOMAIN tb, 0)]

\* the set effective at round r (PeerSetCache.Get semantics)
EffectiveAt(tb, r) ==
    LET rs == DOMAIN tb
        lo == MinOfSet(rs, 0)
    IN  IF r \in rs THEN tb[r] ELSE IF r < lo THEN tb[lo] ELSE tb[MaxOfSet({ x \in rs : x <= r }, lo)]

RECURSIVE ApplyObserved(_, _, _, _)
ApplyObserved(vals, itxs, rcpt, k) ==
    IF k > Len(itxs) THEN vals
    ELSE LET t == itxs[k]
             v1 == IF ~(k <= Len(rcpt) /\ rcpt[k]) THEN vals
                   ELSE IF t.typ = "add"
                        THEN IF SeqContains(vals, t.peer) THEN vals ELSE Append(vals, t.peer)
                        ELSE SeqFilterOut(vals, t.peer)
         IN  ApplyObserved(v1, itxs, rcpt, k + 1)

\* genesis at round 0, then per delivered block with an accepted receipt the
\* previous latest set +- the peers, effective at round-received + 6
RECURSIVE ReplayPS(_, _, _)
ReplayPS(tb, dvn, k) ==
    IF k > Len(dvn) THEN tb
    ELSE LET b == dvn[k]
             changed == \E j \in 1..Len(b.itxs) : j <= Len(b.rcpt) /\ b.rcpt[j]
         IN  IF ~changed THEN ReplayPS(tb, dvn, k + 1)
             ELSE ReplayPS(Ext(tb, b.rr + 6, ApplyObserved(LatestOf(tb), b.itxs, b.rcpt, 1)), dvn, k + 1)

Inv_C10_HistoryIsReplay(tb0, dvn, o) == PSTable(o.ps) = ReplayPS(tb0, dvn, 1)

Inv_C10_NoRetroactive(prev, o) ==
    LET tb == PSTable(o.ps) IN
    /\ \A r \in DOMAIN prev.ps : r \in DOMAIN tb /\ tb[r] = prev.ps[r]
    /\ \A r \in (DOMAIN tb) \ (DOMAIN prev.ps) : r > prev.lcr

\* the set of round r is fixed before the node assigns any event to round r: a
\* set learned for a round the node had already reached would mean that some
\* events of that round were divided (witness or not, quorums) under the old set
\* (the design-level model BabbleDyn.tla shows the divergence this leads to when
\* the activation delay is shorter than the time fame takes to be decided)
Inv_C10_SetKnownBeforeRoundStarts(prev, o) ==
    LET tb == PSTable(o.ps) IN
    \A r \in (DOMAIN tb) \ (DOMAIN prev.ps) : r > prev.lr

Inv_C10_SameAcrossNodes(n, o, lst, lost) ==
    LET tb == PSTable(o.ps) IN
    \A m \in (DOMAIN lst) \ (lost \cup {n}) :
        \A r \in DOMAIN tb \cap DOMAIN lst[m].ps : tb[r] = lst[m].ps[r]

Inv_C10_BlockPeers(o) ==
    LET tb == PSTable(o.ps) IN
    \A k \in 1..Len(o.blocks) : AsSeq(o.blocks[k].peers) = EffectiveAt(tb, o.blocks[k].rr)

Inv_C10_MembersOnly(DD, o) ==
    LET tb == PSTable(o.ps) IN
    /\ \A k \in 1..Len(o.rounds) : \A j \in 1..Len(o.rounds[k].ws) :
          LET e == o.rounds[k].ws[j].e IN
          e \in DOMAIN DD => SeqContains(EffectiveAt(tb, o.rounds[k].r), DD[e].c)
    /\ ("store" \in DOMAIN o) =>
          \A k \in 1..Len(o.store) : \A j \in 1..Len(o.store[k].sigs) :
              SeqContains(EffectiveAt(tb, o.store[k].rr), o.store[k].sigs[j].by)

-----------------------------------------------------------------------------
(* C09: recorded block signatures and the anchor block (observed store)    *)

StoreEntry(o, idx) == o.store[CHOOSE k \in 1..Len(o.store) : o.store[k].idx = idx]
HasStoreEntry(o, idx) == \E k \in 1..Len(o.store) : o.store[k].idx = idx

\* every recorded signature verifies against the node's own body of that
\* block (driver's own ECDSA) and its signer is in the set of the block's round
Inv_C09_RecordedSigsValid(o) ==
    LET tb == PSTable(o.ps) IN
    \A k \in 1..Len(o.store) : \A j \in 1..Len(o.store[k].sigs) :
        /\ o.store[k].sigs[j].q = "good"
        /\ SeqContains(EffectiveAt(tb, o.store[k].rr), o.store[k].sigs[j].by)

\* the anchor carries valid signatures of more than a third of the distinct
\* validators of its round (any signature for a single validator)
Inv_C09_AnchorTrusted(o) ==
    LET tb == PSTable(o.ps) IN
    (o.anchor >= 0 /\ HasStoreEntry(o, o.anchor)) =>
        LET sb == StoreEntry(o, o.anchor)
            vs == EffectiveAt(tb, sb.rr)
            signers == { sb.sigs[j].by : j \in { i \in 1..Len(sb.sigs) : sb.sigs[i].q = "good" /\ SeqContains(vs, sb.sigs[i].by) } }
        IN  3 * Cardinality(signers) > Len(vs)

Inv_C09_AnchorMonotone(prevAnchor, o) == o.anchor >= prevAnchor

\* a node signs only blocks it has delivered itself
Inv_C09_SignsOnlyDelivered(me, dvn, o, baseIdx) ==
    \* (blocks at or below a fast-sync anchor were delivered by an earlier
    \* incarnation or came with the anchor)
    LET delivered == { dvn[i].idx : i \in 1..Len(dvn) } IN
    /\ \A i \in SeqToSet(o.selfsigs) : i > baseIdx => i \in delivered
    /\ \A k \in 1..Len(o.store) :
          (o.store[k].idx > baseIdx /\ \E j \in 1..Len(o.store[k].sigs) : o.store[k].sigs[j].by = me)
              => o.store[k].idx \in delivered

-----------------------------------------------------------------------------
(* Conformance checks: specification result = logged implementation result *)

\* (r = l = -1: the event had left the implementation's cache when the driver
\* read it back; round and lamport are not persisted, nothing was observed)
ConfVals(h, o) ==
    \A k \in 1..Len(o.vals) :
        LET v == o.vals[k] IN
        (v.r = -1 /\ v.l = -1) \/
        /\ v.e \in DOMAIN h.E
        /\ h.E[v.e].rnd = v.r /\ h.E[v.e].wit = v.w /\ h.E[v.e].lt = v.l

ConfRR(h, o) ==
    /\ \A k \in 1..Len(o.rr) : o.rr[k].e \in DOMAIN h.E /\ h.E[o.rr[k].e].rr = o.rr[k].rr
    /\ Len(h.undet) = o.undet

ConfRounds(h, o) ==
    \A k \in 1..Len(o.rounds) :
        LET ro == o.rounds[k] IN
        /\ ro.r \in DOMAIN h.R
        /\ h.R[ro.r].dec = ro.dec
        /\ Witnesses(h.R[ro.r]) = { ro.ws[j].e : j \in 1..Len(ro.ws) }
        /\ \A j \in 1..Len(ro.ws) :
              ro.ws[j].e \in DOMAIN h.R[ro.r].ev /\ h.R[ro.r].ev[ro.ws[j].e].f = ro.ws[j].f

ConfBlocks(newOut, o) ==
    /\ Len(newOut) = Len(o.blocks)
    /\ \A k \in 1..MinI(Len(newOut), Len(o.blocks)) :
          LET s == newOut[k]
              b == o.blocks[k]
          IN  /\ s.idx = b.idx /\ s.rr = b.rr
              /\ s.evs = AsSeq(b.evs)
              /\ s.txs = AsSeq(b.txs)
              /\ s.fws = SeqToSet(b.fws)
              /\ s.peers = AsSeq(b.peers)
              /\ s.rcpt = AsSeq(b.rcpt)
              /\ (~b.big /\ \A w \in s.fws : ~D[w].big) => s.ts = b.ts

ConfRoots(h, o) ==
    \A k \in 1..Len(o.blocks) :
        LET b == o.blocks[k] IN
        b.rr \in DOMAIN h.frames =>
            LET f == h.frames[b.rr] IN
            /\ DOMAIN f.roots = { b.roots[j].c : j \in 1..Len(b.roots) }
            /\ \A j \in 1..Len(b.roots) :
                  b.roots[j].c \in DOMAIN f.roots => f.roots[b.roots[j].c] = AsSeq(b.roots[j].evs)

ConfKnown(h, o) ==
    LET km == KnownMap(h) IN
    /\ DOMAIN km = { o.known[k].c : k \in 1..Len(o.known) }
    /\ \A k \in 1..Len(o.known) : o.known[k].c \in DOMAIN km => km[o.known[k].c] = o.known[k].i

ConfCore(nd, o) ==
    /\ nd.head = o.head /\ nd.seq = o.seq
    /\ nd.txpool = AsSeq(o.txpool)
    /\ [ k \in 1..Len(nd.itxpool) |-> nd.itxpool[k].id ] = AsSeq(o.itxpool)
    /\ nd.h.selfSigs = SeqToSet(o.selfsigs)
    /\ Busy(nd) = o.busy
    /\ DOMAIN nd.heads = { o.heads[k].c : k \in 1..Len(o.heads) }
    /\ \A k \in 1..Len(o.heads) : o.heads[k].c \in DOMAIN nd.heads => nd.heads[o.heads[k].c] = o.heads[k].e

ConfScalars(h, o) ==
    /\ h.lcr = o.lcr /\ h.loaded = o.loaded /\ h.lastBlock = o.lastBlock
    /\ h.lastRound = o.lastRound /\ h.topo = o.topo /\ h.targetRound = o.target

ConfAnchor(h, o) == h.anchor = o.anchor /\ Cardinality(DOMAIN h.sigpool) = o.sigpool

\* sched mode (specification -> implementation): the line carries what TLC, running
\* Babble.tla on its own, predicted for the acting node after this step
ConfSchedPred(x, o, dvn) ==
    ("pred" \notin DOMAIN x) \/
    LET p == x.pred IN
    /\ p.sent
    /\ AsSeq(p.new) = AsSeq(x.new)
    /\ \A k \in 1..Len(o.known) :
          o.known[k].c \in 1..Len(p.known) /\ p.known[o.known[k].c] = o.known[k].i
    /\ p.seq = o.seq /\ p.pool = Len(o.txpool) /\ p.nblk = Len(dvn)
    /\ p.busy = o.busy /\ p.lcr = o.lcr

ConfPS(h, o) ==
    /\ DOMAIN h.ps = { o.ps[k].r : k \in 1..Len(o.ps) }
    /\ \A k \in 1..Len(o.ps) : o.ps[k].r \in DOMAIN h.ps => h.ps[o.ps[k].r] = AsSeq(o.ps[k].peers)

-----------------------------------------------------------------------------
(* The Sync line: core.sync followed by processSigPool                     *)

\* fold over the events sent; insert exactly those the implementation
\* inserted, and note where the specification would have decided otherwise
RECURSIVE TSyncLoop(_, _, _, _, _)
TSyncLoop(DD, st, from, es, ins) ==
    IF es = << >> THEN st
    ELSE
    LET e  == Head(es)
        nd == st.nd
        cl == SyncClass(DD, nd.h, e)
        did == e \in ins /\ ~Known(nd.h, e)
    IN  IF ~did
        THEN TSyncLoop(DD, [ st EXCEPT !.mis = @ \/ (cl = "insert" /\ ~st.aborted),
                                       !.aborted = @ \/ cl = "abort",
                                       !.skips = @ + (IF cl = "skip" THEN 1 ELSE 0) ],
                       from, Tail(es), ins)
        ELSE
        LET h1 == InsertAndRun(DD, nd.h, e)
            c  == DD[e].c
            mine == c = nd.h.me
            hd == nd.heads
            hd1 == IF c \in DOMAIN hd /\ hd[c] # NoEv /\ DD[e].i > DD[hd[c]].i
                   THEN Without(hd, c) ELSE hd
            nd1 == [ nd EXCEPT !.h = h1,
                               !.head = IF mine THEN e ELSE @,
                               !.seq = IF mine THEN DD[e].i ELSE @,
                               !.heads = hd1 ]
        IN  TSyncLoop(DD, [ st EXCEPT !.nd = nd1,
                                      !.oh = IF c = from THEN e ELSE @,
                                      !.mis = @ \/ cl # "insert" \/ st.aborted,
                                      !.adm = @ /\ Admissible(DD, nd.h, e) ],
                      from, Tail(es), ins)

RECURSIVE TCreateLoop(_, _, _)
TCreateLoop(DD, st, new) ==
    IF new = << >> THEN st
    ELSE LET e == Head(new)
             nd == st.nd
             p == SelfPayload(nd)
             good == /\ DD[e].sp = nd.head /\ DD[e].i = nd.seq + 1 /\ DD[e].c = nd.h.me
                     /\ DD[e].txs = p.txs
                     /\ [ k \in 1..Len(DD[e].itxs) |-> DD[e].itxs[k].id ] = [ k \in 1..Len(p.itxs) |-> p.itxs[k].id ]
                     /\ { DD[e].sigs[k].blk : k \in 1..Len(DD[e].sigs) } = nd.h.selfSigs
                     /\ (DD[e].op = NoEv \/ \E c \in DOMAIN nd.heads : nd.heads[c] = DD[e].op)
                     /\ MayCreate(nd)
             \* a crafted event (Byzantine payload) goes through the node's own
             \* insertEventAndRunConsensus: head and seq move, pools are untouched
             nd1 == IF st.crafted
                    THEN [ nd EXCEPT !.h = InsertAndRun(DD, nd.h, e), !.head = e, !.seq = DD[e].i ]
                    ELSE AddSelfEvent(DD, nd, e)
         IN  TCreateLoop(DD, [ st EXCEPT !.nd = nd1, !.selfok = @ /\ (good \/ st.crafted),
                                         !.adm = @ /\ Admissible(DD, nd.h, e) ], Tail(new))

TraceSyncResult(DD, nd, x, o) ==
    LET from == x.from
        st0 == [ nd |-> nd, oh |-> NoEv, mis |-> FALSE, aborted |-> FALSE, adm |-> TRUE,
                 selfok |-> TRUE, skips |-> 0, crafted |-> "crafted" \in DOMAIN x ]
        st1 == TSyncLoop(DD, st0, from, AsSeq(x.evs), SeqToSet(x.ins))
        hd == st1.nd.heads
        setHead == from # 0 /\ ~o.err /\
                   ( \/ from \notin DOMAIN hd
                     \/ hd[from] = NoEv
                     \/ (st1.oh # NoEv /\ DD[st1.oh].i > DD[hd[from]].i) )
        nd2 == IF setHead THEN [ st1.nd EXCEPT !.heads = Ext(hd, from, st1.oh) ] ELSE st1.nd
        wants == from # 0 /\ ~o.err /\ WantsRecord(nd2)
        st2 == TCreateLoop(DD, [ st1 EXCEPT !.nd = nd2 ], AsSeq(x.new))
        nd3 == IF wants THEN [ st2.nd EXCEPT !.heads = EmptyFun ] ELSE st2.nd
        nd4 == IF o.err \/ o.serr THEN nd3 ELSE [ nd3 EXCEPT !.h = ProcessSigPool(@) ]
    IN  [ nd |-> nd4, mis |-> st2.mis, adm |-> st2.adm, selfok |-> st2.selfok,
          wantsOK |-> (from = 0 \/ wants \/ x.new = << >>), skips |-> st2.skips ]

Checks(pid, name, ok) ==
    IF ok THEN {}
    ELSE IF Line.a = "Sync" /\ "lost" \in DOMAIN Line.x
         THEN { [ p |-> pid, inv |-> name, l |-> l, t |-> Line.t, d |-> "after-store-fault:" \o Line.x.lost ] }
         ELSE { [ p |-> pid, inv |-> name, l |-> l, t |-> Line.t ] }

\* with a detail field identifying the input class (used by known findings)
ChecksD(pid, name, d, ok) == IF ok THEN {} ELSE { [ p |-> pid, inv |-> name, l |-> l, t |-> Line.t, d |-> d ] }

\* at most 6 records per invariant and input class (a persistent failure must not crowd out
\* the violations of other invariants)
CapKey(r) == << r.inv, IF "d" \in DOMAIN r THEN r.d ELSE "" >>
AddCapped(S, T) ==
    S \cup { r \in T : Cardinality({ q \in S : CapKey(q) = CapKey(r) }) < 6 }

-----------------------------------------------------------------------------

TInit ==
    /\ l = 1
    /\ D = EmptyFun
    /\ nodes = EmptyFun
    /\ dlv = EmptyFun
    /\ sto = EmptyFun
    /\ psto = EmptyFun
    /\ rrv = EmptyFun
    /\ meta = [ nc |-> 0 ]
    /\ ref = [ set |-> FALSE ]
    /\ pools = EmptyFun
    /\ last = EmptyFun
    /\ base = EmptyFun
    /\ cev = EmptyFun
    /\ ctx = EmptyFun
    /\ lostSet = {}
    /\ evals = EmptyFun
    /\ fames = EmptyFun
    /\ sub = EmptyFun
    /\ viol = {}
    /\ drift = {}
    /\ pst = EmptyFun
    /\ stats = Stats0

TraceReset ==
    /\ Line.a = "Init"
    /\ LET x == Line.x
           gen == AsSeq(x.genesis)
           ns == { x.nodes[k].n : k \in 1..Len(x.nodes) }
           meOf(n) == (CHOOSE k \in 1..Len(x.nodes) : x.nodes[k].n = n)
       IN  /\ nodes' = [ n \in ns |-> InitCore(gen, x.nodes[meOf(n)].me) ]
           /\ dlv' = [ n \in ns |-> << >> ]
           /\ sto' = [ n \in ns |-> << >> ]
           /\ psto' = [ n \in ns |-> << >> ]
           /\ rrv' = [ n \in ns |-> << >> ]
           /\ pools' = [ n \in ns |-> << >> ]
           /\ last' = [ n \in ns |-> [ lcr |-> -1, ps |-> (0 :> gen), anchor |-> -1, lr |-> -1 ] ]
           /\ cev' = [ n \in ns |-> {} ]
           /\ base' = [ n \in ns |-> [ idx |-> -1, rr |-> -1, ps |-> (0 :> gen) ] ]
           /\ ctx' = [ n \in ns |-> << >> ]
    /\ lostSet' = {}
    /\ D' = EmptyFun
    /\ meta' = Line.x
    /\ ref' = [ set |-> FALSE ]
    /\ evals' = EmptyFun
    /\ fames' = EmptyFun
    /\ sub' = EmptyFun
    /\ stats' = Bump(Bump(stats, "traces"), "lines")
    /\ pst' = EmptyFun
    /\ UNCHANGED << viol, drift >>

TraceCreate ==
    /\ Line.a = "Create"
    /\ D' = Ext(D, Line.x.id, EvRec(Line.x))
    /\ stats' = Bump(Bump(stats, "creates"), "lines")
    \* C11: an honest node never creates two events at the same height, crash
    \* and restart included (only evaluated in persist mode: Byzantine puppets
    \* of other modes fork on purpose)
    /\ viol' = IF "mode" \in DOMAIN meta /\ meta.mode = "persist"
                THEN AddCapped(viol, Checks("C11", "Inv_C11_NoSelfFork",
                         ~\E id \in DOMAIN D : D[id].c = Line.x.c /\ D[id].i = Line.x.i /\ id # Line.x.id))
                ELSE viol
    /\ UNCHANGED << pst, nodes, dlv, sto, psto, rrv, meta, cev, ctx, base, last, pools, lostSet, evals, fames, ref, sub, drift >>

TraceSubmit ==
    /\ Line.a = "Submit"
    /\ nodes' = IF Line.n \in DOMAIN nodes
                THEN [ nodes EXCEPT ![Line.n].txpool = Append(@, Line.x.tx) ] ELSE nodes
    /\ sub' = Ext(sub, Line.x.tx, Append(Get(sub, Line.x.tx, << >>), Line.n))
    /\ pools' = IF Line.n \in DOMAIN pools THEN [ pools EXCEPT ![Line.n] = Append(@, Line.x.tx) ] ELSE pools
    /\ stats' = Bump(stats, "lines")
    /\ UNCHANGED << pst, D, dlv, sto, psto, rrv, meta, cev, ctx, base, last, lostSet, evals, fames, ref, viol, drift >>

\* Everything a Sync line implies, computed once (TLC caches LET values inside
\* an operator, not inside an action).
\* x.lost: a transient store error was injected into this node at or before
\* this step.  The specification does not model partially applied passes, so
\* it stops tracking the node (no Conf_* checks); the property checks on the
\* observed state go on.
SyncOutcome(n, x, o) ==
    LET nd == nodes[n]
        lostNow == "lost" \in DOMAIN x
        \* x.nospec: the node went through something the specification does not model
        \* (a commit whose reply was lost); it is still compared with the others
        specOff == lostNow \/ "nospec" \in DOMAIN x
        r == IF specOff THEN [ nd |-> nd, adm |-> TRUE, mis |-> FALSE, selfok |-> TRUE, wantsOK |-> TRUE, skips |-> 0 ]
             ELSE TraceSyncResult(D, nd, x, o)
        nd1 == r.nd
        h1 == nd1.h
        newOut == SubSeq(h1.out, Len(nd.h.out) + 1, Len(h1.out))
        dlv1 == [ dlv EXCEPT ![n] = @ \o AsSeq(o.blocks) ]
        hasStore == "store" \in DOMAIN o
        sto1 == IF hasStore THEN [ sto EXCEPT ![n] = AsSeq(o.store) ] ELSE sto
        psto1 == IF hasStore THEN [ psto EXCEPT ![n] = sto[n] ] ELSE psto
        nodes1 == [ nodes EXCEPT ![n] = nd1 ]
        from == Len(dlv[n]) + 1
        rrNew == Strict([ e \in { o.rr[k].e : k \in 1..Len(o.rr) } |->
                           o.rr[CHOOSE k \in 1..Len(o.rr) : o.rr[k].e = e].rr ])
        rv1 == rrNew @@ rrv[n]
        \* (values a faulted node could not compute are reported as negative: not a result)
        valsSeen == SelectSeq(AsSeq(o.vals), LAMBDA v : v.r >= 0 /\ v.l >= 0)
        valsNew == FunOfSeq(valsSeen, LAMBDA v : v.e, LAMBDA v : << v.r, v.w, v.l >>)
        decidedPairs == UNION { { << o.rounds[k].ws[j].e, o.rounds[k].ws[j].f >> : j \in 1..Len(o.rounds[k].ws) } : k \in 1..Len(o.rounds) }
        fameNew == Strict([ e \in { q[1] : q \in { p \in decidedPairs : p[2] # "U" } } |->
                             (CHOOSE q \in decidedPairs : q[1] = e /\ q[2] # "U")[2] ])
        lost1 == IF lostNow THEN lostSet \cup {n} ELSE lostSet
        crossVals == lostNow \/ \A e \in DOMAIN valsNew : e \in DOMAIN evals => evals[e] = valsNew[e]
        crossRR == lostNow \/ \A e \in DOMAIN rrNew : \A m \in (DOMAIN rrv) \ lost1 : (m # n /\ e \in DOMAIN rrv[m] /\ rrv[m][e] # 0) => rrv[m][e] = rrNew[e]
        crossFame == lostNow \/ \A e \in DOMAIN fameNew : e \in DOMAIN fames => fames[e] = fameNew[e]
        evalsAll == valsNew @@ evals
        \* known finding C13/straggler: every disagreement of this step is between a node that
        \* fast-forwarded and another one, concerns the frame hash only (and the digest that
        \* includes it), in a block that holds an event of a round at or below the reset round
        SameButFrameHash(x1, x2) ==
            << x1.idx, x1.rr, x1.txs, x1.itxs, x1.rcpt, x1.ph, x1.ts, x1.big, x1.sh >> =
            << x2.idx, x2.rr, x2.txs, x2.itxs, x2.rcpt, x2.ph, x2.ts, x2.big, x2.sh >>
        stragglerOnly ==
            \A b \in (DOMAIN dlv1) \ (lost1 \cup {n}) : \A i \in from..Len(dlv1[n]) :
                LET ob == BlockAt(dlv1[b], dlv1[n][i].idx) IN
                ob = << >> \/ BodyFields(ob[1]) = BodyFields(dlv1[n][i]) \/
                ( /\ SameButFrameHash(ob[1], dlv1[n][i])
                  /\ \E m \in {n, b} : base[m].idx >= 0 /\
                        \* (in the block itself, or - later blocks - among the roots of its frame,
                        \* which carry the event's round as well)
                        \E e \in SeqToSet(dlv1[n][i].evs) \cup
                                 UNION { SeqToSet(dlv1[n][i].roots[j].evs) : j \in 1..Len(dlv1[n][i].roots) } :
                            e \in DOMAIN evalsAll /\ evalsAll[e][1] <= base[m].rr )
        agreeOK == o.blocks = << >> \/ Inv_C01_Agreement(dlv1, lost1, n, from)
        V == (IF agreeOK THEN {}
              ELSE IF n \notin lost1 /\ stragglerOnly
                   THEN { [ p |-> "C01", inv |-> "Inv_C01_Agreement", l |-> l, t |-> Line.t,
                            d |-> "fast-forward/straggler-of-old-round-changes-frame-hash" ] }
                   ELSE Checks("C01", "Inv_C01_Agreement", FALSE))
             \cup Checks("C02", "Inv_C02_Consecutive", o.blocks = << >> \/ Inv_C02_Consecutive(dlv1[n], from, base[n].idx))
             \cup Checks("C02", "Inv_C02_StoreKeepsDelivered", ~hasStore \/ Inv_C02_StoreKeepsDelivered(dlv1[n], sto1[n]))
             \cup Checks("C02", "Inv_C02_SigsOnlyGrow", ~hasStore \/ Inv_C02_SigsOnlyGrow(sto1[n], psto1[n]))
             \cup Checks("C03", "Inv_C03_CrossNodeValues", crossVals)
             \cup Checks("C03", "Inv_C03_CrossNodeRoundReceived", crossRR)
             \cup Checks("C03", "Inv_C03_CrossNodeFame", crossFame)
             \cup Checks("C04", "Inv_C04_Once", o.blocks = << >> \/ Inv_C04_Once(cev[n], o))
             \cup Checks("C04", "Inv_C04_Causal", Inv_C04_Causal(D, rv1, o, dlv1[n], base[n].idx >= 0, base[n].rr))
             \cup Checks("C04", "Inv_C04_BlockIsFrame", Inv_C04_BlockIsFrame(D, rv1, o))
             \cup Checks("C04", "Inv_C04_NoLateReceive", specOff \/ Inv_C04_NoLateReceive(nd.h.lcr, o))
             \cup Checks("C04", "Inv_C04_Payload", o.blocks = << >> \/ Inv_C04_Payload(D, dlv1[n], from))
             \cup Checks("C05", "Inv_C05_OnlySubmittedOnce", o.blocks = << >> \/ Inv_C05_OnlySubmittedOnce(ctx[n], o, sub))
             \cup Checks("C05", "Inv_C05_NeverDropped",
                         Inv_C05_NeverDropped(D, nodes1, sub, [ pools EXCEPT ![n] = AsSeq(o.txpool) ], n,
                                              SeqToSet(pools[n]) \cup SeqToSet(o.txpool)))
             \cup Checks("C07", "Inv_C07_OnlyAdmissible", r.adm)
             \cup Checks("C09", "Inv_C09_RecordedSigsValid", ~hasStore \/ Inv_C09_RecordedSigsValid(o))
             \cup Checks("C09", "Inv_C09_AnchorTrusted", ~hasStore \/ Inv_C09_AnchorTrusted(o))
             \cup Checks("C09", "Inv_C09_AnchorMonotone", Inv_C09_AnchorMonotone(last[n].anchor, o))
             \cup Checks("C09", "Inv_C09_SignsOnlyDelivered", ~hasStore \/ lostNow \/ Inv_C09_SignsOnlyDelivered(nd.h.me, dlv1[n], o, base[n].idx))
             \cup Checks("C10", "Inv_C10_HistoryIsReplay", lostNow \/ Inv_C10_HistoryIsReplay(base[n].ps, dlv1[n], o))
             \cup Checks("C10", "Inv_C10_NoRetroactive", Inv_C10_NoRetroactive(last[n], o))
             \cup Checks("C10", "Inv_C10_SetKnownBeforeRoundStarts", lostNow \/ Inv_C10_SetKnownBeforeRoundStarts(last[n], o))
             \cup Checks("C10", "Inv_C10_SameAcrossNodes", lostNow \/ Inv_C10_SameAcrossNodes(n, o, last, lost1))
             \cup Checks("C10", "Inv_C10_BlockPeers", Inv_C10_BlockPeers(o))
             \cup Checks("C10", "Inv_C10_MembersOnly", lostNow \/ Inv_C10_MembersOnly(D, o))
             \cup Checks("C15", "Inv_C15_FrameHashSameEverywhere",
                         lostNow \/ \A i \in from..Len(dlv1[n]) : \A m \in (DOMAIN dlv1) \ (lost1 \cup {n}) :
                             LET ob == BlockAt(dlv1[m], dlv1[n][i].idx) IN
                             ob = << >> \/ (ob[1].fh = dlv1[n][i].fh /\ ob[1].ph = dlv1[n][i].ph))
             \cup Checks("C18", "Inv_C18_IsMedian", \A k \in 1..Len(o.blocks) : Inv_C18_IsMedian(D, o.blocks[k]))
             \cup Checks("C18", "Inv_C18_Bounded", \A k \in 1..Len(o.blocks) : Inv_C18_Bounded(D, o.blocks[k], Liars(meta)))
        F == IF specOff THEN {} ELSE
             Checks("-", "Conf_Vals", ConfVals(h1, o))
             \cup Checks("-", "Conf_RR", ConfRR(h1, o))
             \cup Checks("-", "Conf_Rounds", ConfRounds(h1, o))
             \cup Checks("-", "Conf_Blocks", ConfBlocks(newOut, o))
             \cup Checks("-", "Conf_Roots", ConfRoots(h1, o))
             \cup Checks("-", "Conf_Known", ConfKnown(h1, o))
             \cup Checks("-", "Conf_Core", ConfCore(nd1, o))
             \cup Checks("-", "Conf_Scalars", ConfScalars(h1, o))
             \cup Checks("-", "Conf_Anchor", ConfAnchor(h1, o))
             \cup Checks("-", "Conf_PS", ConfPS(h1, o))
             \cup Checks("-", "Conf_SyncClass", ("tampered" \in DOMAIN x) \/ ~r.mis)
             \cup Checks("-", "Conf_SelfEvent", r.selfok /\ r.wantsOK)
             \cup Checks("-", "Conf_FameUnambiguous", ~h1.ambig)
             \cup Checks("-", "Conf_Sched_Pred", ConfSchedPred(x, o, dlv1[n]))
    IN  [ nodes |-> nodes1, dlv |-> dlv1, sto |-> sto1, psto |-> psto1, rrv |-> [ rrv EXCEPT ![n] = rv1 ],
          last |-> [ last EXCEPT ![n] = [ lcr |-> o.lcr, ps |-> PSTable(o.ps), anchor |-> o.anchor, lr |-> o.lastRound ] ],
          cev |-> [ cev EXCEPT ![n] = @ \cup UNION { SeqToSet(o.blocks[k].evs) : k \in 1..Len(o.blocks) } ],
          ctx |-> [ ctx EXCEPT ![n] = BagAdd(@, NewTxs(o)) ],
          evals |-> IF lostNow THEN evals ELSE valsNew @@ evals, fames |-> IF lostNow THEN fames ELSE fames @@ fameNew, lostSet |-> lost1, pools |-> [ pools EXCEPT ![n] = AsSeq(o.txpool) ],
          viol |-> AddCapped(viol, V), drift |-> AddCapped(drift, F),
          stats |-> [ stats EXCEPT !.lines = @ + 1, !.syncs = @ + 1,
                                   !.inserts = @ + Len(x.ins) + Len(x.new),
                                   !.blocks = @ + Len(o.blocks),
                                   !.skipped = @ + r.skips ] ]

TraceSync ==
    /\ Line.a = "Sync"
    /\ \E R \in { SyncOutcome(Line.n, Line.x, Line.o) } :
          /\ nodes' = R.nodes
          /\ dlv' = R.dlv
          /\ sto' = R.sto
          /\ psto' = R.psto
          /\ rrv' = R.rrv
          /\ evals' = R.evals
          /\ pools' = R.pools
          /\ last' = R.last
          /\ cev' = R.cev
          /\ ctx' = R.ctx
          /\ lostSet' = R.lostSet
          /\ fames' = R.fames
          /\ viol' = R.viol
          /\ drift' = R.drift
          /\ stats' = R.stats
    /\ UNCHANGED << pst, D, sub, meta, ref, base >>

-----------------------------------------------------------------------------
(* C19: rows tabulated from the real PeerSet: << n, SuperMajority, TrustCount, Len >> *)

QLeast(m, k) == 3 * m > 2 * k /\ 3 * (m - 1) <= 2 * k
QFMax(k) == (k - 1) \div 3

Inv_C19_SuperMajority(r) == QLeast(r[2], r[1])
Inv_C19_Trust(r) ==
    LET k0 == r[3] + 1 IN
    /\ 3 * k0 > r[1] /\ ((k0 = 1) <=> (r[1] = 1)) /\ k0 <= r[1] /\ k0 > QFMax(r[1])
Inv_C19_Lemmas(r) ==
    /\ 3 * (2 * r[2] - r[1]) > r[1]
    /\ r[2] - QFMax(r[1]) > QFMax(r[1])
    /\ r[4] = r[1]
\* acceptance: << n, k, anchored, checked >>
Inv_C19_Accept(r) ==
    LET ok(acc) == /\ acc => (3 * r[2] > r[1] /\ (r[2] = 1 => r[1] = 1))
                   /\ (r[2] = r[1]) => acc          \* signed by everyone: trusted
                   /\ acc <=> (r[2] > TrustCount(r[1]))
    IN  ok(r[3]) /\ ok(r[4])

TraceQuorum ==
    /\ Line.a = "Quorum"
    /\ \E R \in { LET rows == Line.x.rows
                       V == Checks("C19", "Inv_C19_SuperMajority", \A k \in 1..Len(rows) : Inv_C19_SuperMajority(rows[k]))
                            \cup Checks("C19", "Inv_C19_Trust", \A k \in 1..Len(rows) : Inv_C19_Trust(rows[k]))
                            \cup Checks("C19", "Inv_C19_Lemmas", \A k \in 1..Len(rows) : Inv_C19_Lemmas(rows[k]))
                       F == Checks("-", "Conf_Quorum", \A k \in 1..Len(rows) :
                                     SuperMajority(rows[k][1]) = rows[k][2] /\ TrustCount(rows[k][1]) = rows[k][3])
                   IN  [ v |-> V, f |-> F, n |-> Len(rows) ] } :
          /\ viol' = AddCapped(viol, R.v)
          /\ drift' = AddCapped(drift, R.f)
          /\ stats' = [ stats EXCEPT !.lines = @ + 1, !.inserts = @ + R.n ]
    /\ UNCHANGED << pst, D, nodes, dlv, sto, psto, rrv, meta, cev, ctx, base, last, pools, lostSet, evals, fames, ref, sub >>

TraceQuorumAccept ==
    /\ Line.a = "QuorumAccept"
    /\ LET rows == Line.x.rows IN
       /\ viol' = AddCapped(viol, Checks("C19", "Inv_C19_Accept", \A k \in 1..Len(rows) : Inv_C19_Accept(rows[k])))
       /\ stats' = [ stats EXCEPT !.lines = @ + 1, !.inserts = @ + Len(rows), !.blocks = @ + Len(rows) ]
    /\ UNCHANGED << pst, D, nodes, dlv, sto, psto, rrv, meta, cev, ctx, base, last, pools, lostSet, evals, fames, ref, sub, drift >>

-----------------------------------------------------------------------------
(* C03: one DAG, many instances                                            *)

OutRec(o) ==
    [ set |-> TRUE,
      vals |-> FunOfSeq(o.vals, LAMBDA v : v.e, LAMBDA v : << v.r, v.w, v.l >>),
      rr   |-> FunOfSeq(o.rr, LAMBDA v : v.e, LAMBDA v : v.rr),
      fame |-> FunOfSeq(o.fame, LAMBDA v : v.e, LAMBDA v : v.f),
      blocks |-> AsSeq(o.blocks) ]

BlockKey(b) == << b.idx, b.rr, b.dig, b.fh, b.evs, b.txs, b.ts, b.big >>

\* an instance fed all the events: identical output
Inv_C03_SameOutput(rf, oo) ==
    /\ oo.vals = rf.vals
    /\ oo.rr = rf.rr
    /\ DOMAIN oo.fame = DOMAIN rf.fame
    /\ \A e \in DOMAIN oo.fame :
          /\ (oo.fame[e] = "T") <=> (rf.fame[e] = "T")
          /\ (oo.fame[e] # "U" /\ rf.fame[e] # "U") => oo.fame[e] = rf.fame[e]
    /\ Len(oo.blocks) = Len(rf.blocks)
    /\ \A k \in 1..MinI(Len(oo.blocks), Len(rf.blocks)) : BlockKey(oo.blocks[k]) = BlockKey(rf.blocks[k])

\* an instance fed a downward-closed subset: a prefix, and agreement on
\* everything it has fixed
Inv_C03_Prefix(rf, oo) ==
    /\ \A e \in DOMAIN oo.vals : e \in DOMAIN rf.vals /\ oo.vals[e] = rf.vals[e]
    /\ \A e \in DOMAIN oo.rr : e \in DOMAIN rf.rr /\ oo.rr[e] = rf.rr[e]
    /\ \A e \in DOMAIN oo.fame :
          /\ e \in DOMAIN rf.fame
          /\ oo.fame[e] = "T" => rf.fame[e] = "T"
          /\ (oo.fame[e] # "U" /\ rf.fame[e] # "U") => oo.fame[e] = rf.fame[e]
    /\ Len(oo.blocks) <= Len(rf.blocks)
    /\ \A k \in 1..MinI(Len(oo.blocks), Len(rf.blocks)) : BlockKey(oo.blocks[k]) = BlockKey(rf.blocks[k])

ConfBlocksLite(newOut, blocks) ==
    /\ Len(newOut) = Len(blocks)
    /\ \A k \in 1..MinI(Len(newOut), Len(blocks)) :
          /\ newOut[k].idx = blocks[k].idx /\ newOut[k].rr = blocks[k].rr
          /\ newOut[k].evs = AsSeq(blocks[k].evs) /\ newOut[k].txs = AsSeq(blocks[k].txs)

HgOutcome(n, x, o) ==
    LET nd == nodes[n]
        h1 == InsertAllAndRun(D, nd.h, AsSeq(x.ins))
        F == Checks("-", "Conf_Vals", ConfVals(h1, o))
             \cup Checks("-", "Conf_RR", ConfRR(h1, o) /\ \A e \in DOMAIN h1.E : (h1.E[e].rr # -1) <=> (\E k \in 1..Len(o.rr) : o.rr[k].e = e))
             \cup Checks("-", "Conf_Rounds", ConfRounds(h1, o))
             \cup Checks("-", "Conf_Blocks", ConfBlocksLite(h1.out, o.blocks))
             \cup Checks("-", "Conf_FameUnambiguous", ~h1.ambig)
    IN  [ nodes |-> [ nodes EXCEPT ![n].h = h1 ], ref |-> OutRec(o), drift |-> AddCapped(drift, F),
          stats |-> [ stats EXCEPT !.lines = @ + 1, !.syncs = @ + 1, !.inserts = @ + Len(x.ins), !.blocks = @ + Len(o.blocks) ] ]

TraceHgInsert ==
    /\ Line.a = "HgInsert"
    /\ \E R \in { HgOutcome(Line.n, Line.x, Line.o) } :
          /\ nodes' = R.nodes /\ ref' = R.ref /\ drift' = R.drift /\ stats' = R.stats
    /\ UNCHANGED << pst, D, dlv, sto, psto, rrv, meta, cev, ctx, base, last, pools, lostSet, evals, fames, sub, viol >>

\* the specification, fed the same events with the same batching, computes exactly
\* what the batched instance reported
BatchExplained(x, o) ==
    LET hb == BatchedRun(D, InitHG(AsSeq(meta.genesis), 0), AsSeq(x.ids), x.batch) IN
    /\ ConfVals(hb, o)
    /\ \A k \in 1..Len(o.rr) : o.rr[k].e \in DOMAIN hb.E /\ hb.E[o.rr[k].e].rr = o.rr[k].rr
    /\ \A e \in DOMAIN hb.E : (hb.E[e].rr # -1) <=> (\E k \in 1..Len(o.rr) : o.rr[k].e = e)
    /\ \A k \in 1..Len(o.fame) :
          LET f == o.fame[k] IN
          f.r \in DOMAIN hb.R /\ f.e \in DOMAIN hb.R[f.r].ev /\ hb.R[f.r].ev[f.e].f = f.f
    /\ ConfBlocksLite(hb.out, o.blocks)

\* the reference instance (per-event insertion) of this trace was reproduced by the
\* specification: no Conf_ mismatch recorded in this trace
RefConforms == ~\E r \in drift : r.t = Line.t

TraceInstance ==
    /\ Line.a = "Instance"
    /\ \E V \in { IF Line.o.err # "" THEN {}      \* unsupported configuration (an error, not a result)
                    ELSE IF "reset" \in DOMAIN Line.x
                    THEN \* C13 at hashgraph level: an instance reset from block k of the reference
                         \* and fed the events above the frame delivers the reference's blocks k+1..
                         LET bs == AsSeq(Line.o.blocks)
                             k0 == Line.x.reset        \* block index of the anchor
                             refAt(i) == ref.blocks[i + 1]     \* reference block with index i (indexes start at 0)
                         IN  ChecksD("C13", "Inv_C13_SameChain", "hashgraph-reset",
                                     \A j \in 1..Len(bs) :
                                        /\ bs[j].idx = k0 + j
                                        /\ bs[j].idx + 1 <= Len(ref.blocks)
                                        /\ BlockKey(bs[j]) = BlockKey(refAt(bs[j].idx)))
                             \cup ChecksD("C13", "Inv_C13_KeepsUp", "hashgraph-reset",
                                     Line.o.stopped # "" \/ k0 + Len(bs) + 1 >= Len(ref.blocks) - 1)
                    ELSE IF "faulty" \in DOMAIN Line.x
                    THEN \* transient store write failures in the commit path: the blocks handed
                         \* to the application are still delivered once, in order, whole
                         LET bs == AsSeq(Line.o.blocks)
                             evsAll == Flatten([ k \in 1..Len(bs) |-> AsSeq(bs[k].evs) ])
                             txsAll == Flatten([ k \in 1..Len(bs) |-> AsSeq(bs[k].txs) ])
                         IN  ChecksD("C02", "Inv_C02_Consecutive", "store-fault",
                                     \A k \in 1..Len(bs) : bs[k].idx = k - 1 /\ (k > 1 => bs[k].rr > bs[k-1].rr))
                             \cup ChecksD("C04", "Inv_C04_Once", "store-fault",
                                     \A i, j \in 1..Len(evsAll) : i # j => evsAll[i] # evsAll[j])
                             \cup ChecksD("C05", "Inv_C05_OnlySubmittedOnce", "store-fault",
                                     \A i, j \in 1..Len(txsAll) : i # j => txsAll[i] # txsAll[j])
                             \cup ChecksD("C02", "Inv_C02_SameAsFaultFree", "store-fault",
                                     Len(bs) <= Len(ref.blocks) /\
                                     \A k \in 1..MinI(Len(bs), Len(ref.blocks)) : BlockKey(bs[k]) = BlockKey(ref.blocks[k]))
                    ELSE IF Line.x.subset
                    THEN ChecksD("C03", "Inv_C03_Prefix", "subset", Inv_C03_Prefix(ref, OutRec(Line.o)))
                    ELSE IF Line.o.partial   \* some values not observable (evicted): blocks must be equal, the rest as far as seen
                    THEN ChecksD("C03", "Inv_C03_SameOutput", "partial-" \o Line.x.kind,
                                 Inv_C03_Prefix(ref, OutRec(Line.o)) /\ Len(Line.o.blocks) = Len(ref.blocks))
                    ELSE IF Line.x.batch # 1
                    THEN \* consensus passes batched: when the output differs from the reference,
                         \* the specification re-executes the same batching (BatchedRun): a
                         \* difference it reproduces is the known first-descendant-walk
                         \* dependence, anything else is not explained by it
                         IF Inv_C03_SameOutput(ref, OutRec(Line.o)) THEN {}
                         ELSE ChecksD("C03", "Inv_C03_SameOutput",
                                      IF "ids" \in DOMAIN Line.x /\ RefConforms /\ BatchExplained(Line.x, Line.o)
                                      THEN "batched-consensus-passes/first-descendant-walk"
                                      ELSE "batched-consensus-passes/unexplained", FALSE)
                    ELSE ChecksD("C03", "Inv_C03_SameOutput", Line.x.kind,
                                 Inv_C03_SameOutput(ref, OutRec(Line.o))) } :
          viol' = AddCapped(viol, V)
    /\ stats' = [ stats EXCEPT !.lines = @ + 1, !.inserts = @ + Line.x.nins,
                               !.blocks = @ + Len(Line.o.blocks),
                               !.skipped = @ + (IF Line.o.err # "" THEN 1 ELSE 0) ]
    /\ UNCHANGED << pst, D, nodes, dlv, sto, psto, rrv, meta, cev, ctx, base, last, pools, lostSet, evals, fames, ref, sub, drift >>

\* common.Median tabulated from the real code on enumerated lists
TraceMedian ==
    /\ Line.a = "Median"
    /\ LET rows == Line.x.rows IN
       /\ viol' = AddCapped(viol, Checks("C18", "Inv_C18_MedianFunction",
                        \A k \in 1..Len(rows) : Median(AsSeq(rows[k].l)) = rows[k].m))
       /\ stats' = [ stats EXCEPT !.lines = @ + 1, !.inserts = @ + Len(rows) ]
    /\ UNCHANGED << pst, D, nodes, dlv, sto, psto, rrv, meta, cev, ctx, base, last, pools, lostSet, evals, fames, ref, sub, drift >>

-----------------------------------------------------------------------------
(* node mode: membership                                                   *)

\* a node (re)starts with a fresh store: a new incarnation
TraceNodeUp ==
    /\ Line.a = "NodeUp"
    /\ LET n == Line.x.n
           gen == AsSeq(Line.x.genesis)
       IN  /\ nodes' = Ext(nodes, n, InitCore(gen, Line.x.me))
           /\ dlv' = Ext(dlv, n, << >>)
           /\ sto' = Ext(sto, n, << >>)
           /\ psto' = Ext(psto, n, << >>)
           /\ rrv' = Ext(rrv, n, << >>)
           /\ pools' = Ext(pools, n, << >>)
           /\ last' = Ext(last, n, [ lcr |-> -1, ps |-> (0 :> gen), anchor |-> -1, lr |-> -1 ])
           /\ cev' = Ext(cev, n, {})
           /\ base' = Ext(base, n, [ idx |-> -1, rr |-> -1, ps |-> (0 :> gen) ])
           /\ ctx' = Ext(ctx, n, << >>)
           /\ lostSet' = lostSet \ {n}
    /\ stats' = Bump(stats, "lines")
    /\ UNCHANGED << pst, D, meta, ref, evals, fames, sub, viol, drift >>

\* core.addInternalTransaction (join request served, or leave)
TraceAddItx ==
    /\ Line.a = "AddItx"
    /\ nodes' = [ nodes EXCEPT ![Line.n].itxpool = Append(@, Line.x.itx) ]
    /\ stats' = Bump(stats, "lines")
    /\ UNCHANGED << pst, D, dlv, sto, psto, rrv, meta, ref, cev, ctx, base, last, pools, lostSet, evals, fames, sub, viol, drift >>

\* a join / leave call returned
TraceOpDone ==
    /\ Line.a = "OpDone"
    /\ nodes' = IF Line.x.kind = "join" /\ Line.o.state # "Shutdown"
                THEN LET hd == LastFrom(nodes[Line.n].h, nodes[Line.n].h.me) IN
                     \* (setHeadAndSeq when the join is answered: a node that re-joins
                     \* over its own database continues its own chain)
                     [ nodes EXCEPT ![Line.n].acceptedRound = Line.x.acceptedRound,
                                    ![Line.n].h.removedRound = -1,
                                    ![Line.n].head = IF @ = NoEv THEN hd ELSE @,
                                    ![Line.n].seq = IF nodes[Line.n].head = NoEv /\ hd # NoEv THEN D[hd].i ELSE @ ]
                ELSE nodes
    /\ stats' = Bump(stats, "lines")
    /\ UNCHANGED << pst, D, dlv, sto, psto, rrv, meta, ref, cev, ctx, base, last, pools, lostSet, evals, fames, sub, viol, drift >>

-----------------------------------------------------------------------------
(* C07: an insertion attempt (tampered or valid) offered to an honest core *)

Inv_C07_ChainsGapFree(o) ==
    \A k \in 1..Len(o.chains) :
        LET ch == o.chains[k] IN
        \* (from > 0: a rolling window smaller than the chain lists its tail only)
        LET from == IF "from" \in DOMAIN ch THEN ch.from ELSE 0 IN
        /\ ch.linked
        /\ \A i \in 1..Len(ch.idx) : ch.idx[i] = from + i - 1
        /\ ch.last = from + Len(ch.idx) - 1

TraceOffer ==
    /\ Line.a = "Offer"
    /\ LET x == Line.x
           o == Line.o
           V == ChecksD("C07", "Inv_C07_OnlyAdmissible", x.desc \o "/" \o x.path, o.accepted => x.admissible)
                \cup ChecksD("C07", "Inv_C07_RejectLeavesState", x.desc \o "/" \o x.path, o.accepted \/ ~o.changed)
                \cup ChecksD("C07", "Inv_C07_NoForkGapFree", x.desc \o "/" \o x.path, ~o.accepted \/ Inv_C07_ChainsGapFree(o))
                \cup ChecksD("C07", "Inv_C07_ValidAccepted", x.desc \o "/" \o x.path, (x.desc = "valid" /\ x.admissible) => o.accepted)
                \cup ChecksD("C08", "Inv_C08_NoPanic", "insert:" \o x.desc \o "/" \o x.path, ~o.panicked)
       IN  viol' = AddCapped(viol, V)
    /\ stats' = [ stats EXCEPT !.lines = @ + 1, !.inserts = @ + 1,
                               !.skipped = @ + (IF Line.o.accepted THEN 0 ELSE 1) ]
    /\ UNCHANGED << pst, D, nodes, dlv, sto, psto, rrv, meta, cev, ctx, base, last, pools, lostSet, evals, fames, ref, sub, drift >>

-----------------------------------------------------------------------------
(* C06: after the fair all-pairs phase every live node is idle and every   *)
(* transaction a live node accepted is committed by all live nodes         *)

TraceLiveCheck ==
    /\ Line.a = "LiveCheck"
    /\ LET x == Line.x
           o == Line.o
           live == SeqToSet(x.live)
           wanted(t) == Cardinality({ i \in DOMAIN sub[t] : sub[t][i] \in live })
           V == Checks("C06", "Inv_C06_IdleWithinBound", x.cycles <= x.bound /\ \A k \in 1..Len(o.busy) : ~o.busy[k])
                \cup Checks("C06", "Inv_C06_PoolsEmpty", \A n \in live : pools[n] = << >>)
                \cup Checks("C06", "Inv_C06_AllCommittedEverywhere",
                             \A t \in DOMAIN sub : \A n \in live : Get(ctx[n], t, 0) >= wanted(t))
                \cup Checks("C06", "Inv_C06_NoLoadedEventPending", \A k \in 1..Len(o.loaded) : o.loaded[k] = 0)
       IN  viol' = AddCapped(viol, V)
    /\ stats' = [ stats EXCEPT !.lines = @ + 1, !.fameDecided = @ + Line.x.cycles ]
    /\ UNCHANGED << pst, D, nodes, dlv, sto, psto, rrv, meta, cev, ctx, base, last, pools, lostSet, evals, fames, ref, sub, drift >>

-----------------------------------------------------------------------------
(* C12 / C13 / C14: a fast-forward response offered to a node               *)

FrameOfObs(fo) ==
    [ round |-> fo.round, peers |-> AsSeq(fo.peers),
      roots |-> FunOfSeq(fo.roots, LAMBDA v : v.c, LAMBDA v : AsSeq(v.evs)),
      evs |-> AsSeq(fo.evs),
      psets |-> PSTable(fo.psets),
      info |-> FunOfSeq(fo.info, LAMBDA v : v.e, LAMBDA v : [ rnd |-> v.rnd, wit |-> v.wit, lt |-> v.lt ]),
      fws |-> {}, tss |-> << >> ]

FFOutcome(n, x, o) ==
    LET d == x.desc
        V == ChecksD("C12", "Inv_C12_AdoptOnlyValid", d, o.adopted => x.valid)
             \cup ChecksD("C12", "Inv_C12_RefusalIsNoOp", d, o.adopted \/ ~o.changed)

             \cup ChecksD("C14", "Inv_C14_NoStrangerAnchor", d, o.adopted => x.trusted_signer)
             \cup ChecksD("C08", "Inv_C08_NoPanic", "fast-forward:" \o d, ~o.panicked)
        nd == nodes[n]
        fr == FrameOfObs(x.frame)
        blk == [ idx |-> x.block.idx, rr |-> x.block.rr, evs |-> fr.evs, txs |-> AsSeq(x.block.txs),
                 itxs |-> AsSeq(x.block.itxs), rcpt |-> AsSeq(x.block.rcpt), ts |-> 0, peers |-> fr.peers,
                 fws |-> {}, sigs |-> SeqToSet(x.block.signers) ]
        h1 == Reset(D, nd.h, blk, fr)
        \* node.fastForward then applies the anchor block's receipts
        itxs1 == [ k \in 1..Len(blk.itxs) |-> [ blk.itxs[k] EXCEPT !.ok = (k <= Len(blk.rcpt) /\ blk.rcpt[k]) ] ]
        h2 == ApplyMembership(h1, blk.rr, itxs1, nd.h.me)
        hd == IF nd.h.me \in Repertoire(h2) THEN LastFrom(h2, nd.h.me) ELSE NoEv
        nd1 == [ nd EXCEPT !.h = h2, !.head = hd, !.seq = IF hd = NoEv THEN -1 ELSE D[hd].i ]
        frameEvs == DOMAIN fr.info
        \* (not a property: a node may refuse more than C12 demands; reported as drift)
        F0 == Checks("-", "Conf_FF_ValidAdopted", (d \in { "none", "none-from-lagging-server" } /\ x.valid /\ x.trusted_signer) => o.adopted)
        F == Checks("-", "Conf_FF_Known", ConfKnown(h2, o))
             \cup Checks("-", "Conf_FF_PS", ConfPS(h2, o))
             \cup Checks("-", "Conf_FF_FirstRounds",
                         "firstrounds" \notin DOMAIN o \/
                         \A k \in 1..Len(o.firstrounds) : FirstRoundOf(h2, o.firstrounds[k].c) = o.firstrounds[k].fr)
             \cup Checks("-", "Conf_FF_Scalars", ConfScalars(h2, o))
             \cup Checks("-", "Conf_FF_Head", nd1.head = o.head /\ nd1.seq = o.seq)
    IN  IF ~o.adopted
        THEN [ adopted |-> FALSE, viol |-> AddCapped(viol, V), drift |-> AddCapped(drift, F0) ]
        ELSE [ adopted |-> TRUE, viol |-> AddCapped(viol, V), drift |-> AddCapped(drift, F \cup F0),
               nodes |-> [ nodes EXCEPT ![n] = nd1 ],
               \* frame events were received in the anchor round; root events at some
               \* earlier round this node never learns: 0 stands for "at or below the anchor"
               rrv |-> [ rrv EXCEPT ![n] = Strict([ e \in frameEvs |-> IF e \in SeqToSet(fr.evs) THEN blk.rr ELSE 0 ]) ],
               base |-> [ base EXCEPT ![n] = [ idx |-> blk.idx, rr |-> blk.rr, ps |-> PSTable(o.ps) ] ],
               last |-> [ last EXCEPT ![n] = [ lcr |-> o.lcr, ps |-> PSTable(o.ps), anchor |-> o.anchor, lr |-> o.lastRound ] ] ]

TraceFFOffer ==
    /\ Line.a = "FFOffer"
    /\ \E R \in { FFOutcome(Line.n, Line.x, Line.o) } :
          /\ viol' = R.viol
          /\ IF R.adopted
             THEN /\ nodes' = R.nodes /\ rrv' = R.rrv /\ base' = R.base /\ last' = R.last /\ drift' = R.drift
                  /\ dlv' = [ dlv EXCEPT ![Line.n] = << >> ]
                  /\ sto' = [ sto EXCEPT ![Line.n] = << >> ]
                  /\ psto' = [ psto EXCEPT ![Line.n] = << >> ]
                  /\ pools' = [ pools EXCEPT ![Line.n] = AsSeq(Line.o.txpool) ]
                  \* delivery starts again after the anchor (the application was restored to it)
                  /\ cev' = [ cev EXCEPT ![Line.n] = {} ]
                  /\ ctx' = [ ctx EXCEPT ![Line.n] = << >> ]
             ELSE /\ drift' = R.drift
                  /\ UNCHANGED << pst, nodes, rrv, base, last, dlv, sto, psto, pools, cev, ctx >>
    /\ stats' = [ stats EXCEPT !.lines = @ + 1, !.coinVotes = @ + (IF Line.o.adopted THEN 1 ELSE 0) ]
    /\ UNCHANGED << pst, D, meta, ref, lostSet, evals, fames, sub >>

-----------------------------------------------------------------------------
(* C08: a hostile message delivered to a node; C17: requests to a node that *)
(* is not babbling, and the auto-suspend rule                               *)

TraceRpc ==
    /\ Line.a = "Rpc"
    /\ LET x == Line.x
           o == Line.o
           d == x.class \o ":" \o x.desc
           V == ChecksD("C08", "Inv_C08_NoPanic", d, ~o.panicked)
                \cup ChecksD("C08", "Inv_C08_HistoryKept", d, o.panicked \/ o.history_kept)
                \cup ChecksD("C08", "Inv_C08_StillServes", d,
                              \* (a valid join request parks its handler until consensus answers;
                              \* any other handler that does not return has wedged the node)
                              o.panicked \/ (o.blocked /\ x.class = "JoinRequest")
                                \/ (~o.blocked /\ o.still_pulls /\ o.still_accepts_push /\ o.sigpool_ok))
       IN  viol' = AddCapped(viol, V)
    /\ stats' = [ stats EXCEPT !.lines = @ + 1, !.inserts = @ + 1 ]
    /\ UNCHANGED << pst, D, nodes, dlv, sto, psto, rrv, meta, cev, ctx, base, last, pools, lostSet, evals, fames, ref, sub, drift >>

TraceStateRpc ==
    /\ Line.a = "StateRpc"
    /\ LET x == Line.x
           o == Line.o
           d == x.state \o ":" \o x.class
           isReq == x.class \in Requests
           V == ChecksD("C17", "Inv_C17_Frozen", d, o.frozen /\ ~o.panicked)
                \cup ChecksD("C17", "Inv_C17_MutatingRefused", d, x.mutating => (o.refused \/ o.blocked))
                \* NodeGate.tla: a request the gate does not let through is refused
                \cup ChecksD("C17", "Inv_C17_GateAsSpecified", d,
                              (isReq /\ ~Gate(x.state, x.class)) => (o.refused \/ o.blocked))
                \cup ChecksD("C17", "Inv_C17_SuspendedServesSync", d,
                              (x.state = "Suspended" /\ o.is_sync) => o.served_sync_ok)
                \cup ChecksD("C08", "Inv_C08_NoPanic", d, ~o.panicked)
       IN  /\ viol' = AddCapped(viol, V)
           /\ drift' = AddCapped(drift, Checks("-", "Conf_Node_Mutating", isReq => (x.mutating = Mutating(x.class))))
    /\ stats' = [ stats EXCEPT !.lines = @ + 1, !.inserts = @ + 1 ]
    /\ UNCHANGED << pst, D, nodes, dlv, sto, psto, rrv, meta, cev, ctx, base, last, pools, lostSet, evals, fames, ref, sub >>

\* node.checkSuspend at a heartbeat: suspended iff the undetermined events
\* created since the node started exceed limit x validators, or the node has
\* reached the round of its own removal
TraceHeartbeat ==
    /\ Line.a = "Heartbeat"
    /\ LET x == Line.x
           o == Line.o
           must == MustSuspend(x.undet, x.initial, x.limit, x.nvals, x.has_lcr, x.lcr, x.removedRound, x.acceptedRound)
           \* a node that suspends itself as "evicted" really is outside the validator
           \* set of its last consensus round (a removal replayed by a bootstrap after
           \* the node had joined again must not count)
           member == Line.n \in DOMAIN last /\ SeqContains(EffectiveAt(last[Line.n].ps, x.lcr), Line.n)
           V == Checks("C17", "Inv_C17_AutoSuspend",
                       o.before = "Babbling" => ((o.after = "Suspended") <=> must))
                \cup Checks("C11", "Inv_C11_EvictedOnlyIfRemoved",
                            (o.before = "Babbling" /\ o.after = "Suspended" /\ x.has_lcr
                               /\ ~TooMany(x.undet, x.initial, x.limit, x.nvals)) => ~member)
       IN  viol' = AddCapped(viol, V)
    /\ stats' = [ stats EXCEPT !.lines = @ + 1, !.fameDecided = @ + (IF Line.o.after = "Suspended" /\ Line.o.before = "Babbling" THEN 1 ELSE 0) ]
    /\ UNCHANGED << pst, D, nodes, dlv, sto, psto, rrv, meta, cev, ctx, base, last, pools, lostSet, evals, fames, ref, sub, drift >>

\* C08: byte streams written to the gossip port of a real node behind the real
\* TCP transport (one framing class per line)
TraceBytes ==
    /\ Line.a = "Bytes"
    /\ LET x == Line.x
           o == Line.o
           V == ChecksD("C08", "Inv_C08_NoPanic", "bytes:" \o x.class, o.infra \/ ~o.crashed)
                \cup ChecksD("C08", "Inv_C08_StillServes", "bytes:" \o x.class, o.infra \/ o.crashed \/ o.served_after = x.streams)
       IN  viol' = AddCapped(viol, V)
    /\ stats' = [ stats EXCEPT !.lines = @ + 1, !.inserts = @ + Line.x.streams ]
    /\ UNCHANGED << pst, D, nodes, dlv, sto, psto, rrv, meta, cev, ctx, base, last, pools, lostSet, evals, fames, ref, sub, drift >>

-----------------------------------------------------------------------------
(* persist mode (C11, C16): store writes / reads, crash, bootstrap          *)

\* completed writes of one step, in order (Store.tla keeps the model)
TraceStW ==
    /\ Line.a = "StW"
    /\ pst' = Ext(pst, Line.n, PWriteRows(Get(pst, Line.n, PS0), Line.x.rows, 1))
    /\ stats' = [ stats EXCEPT !.lines = @ + 1, !.stw = @ + Len(Line.x.rows) ]
    /\ UNCHANGED << D, nodes, dlv, sto, psto, rrv, meta, cev, ctx, base, last, pools, lostSet, evals, fames, ref, sub, viol, drift >>

\* the store read back: every value equals the last one written, every
\* listing is exact
StROutcome(n, x, o) ==
    LET m == Get(pst, n, PS0)
        badR == { k \in 1..Len(o.rows) : ~PReadOK(m, o.rows[k]) }
        badL == { k \in 1..Len(o.lists) : ~PListOK(m, o.lists[k]) }
        dR == IF badR = {} THEN "" ELSE LET r == o.rows[MinOfSet(badR, 0)] IN x.phase \o ":" \o r.path \o ":" \o r.key \o ":" \o r.got
        dL == IF badL = {} THEN "" ELSE LET q == o.lists[MinOfSet(badL, 0)] IN x.phase \o ":" \o q.path \o ":" \o q.what
    IN  [ V |-> ChecksD("C16", "Inv_C16_ReadMatchesModel", dR, badR = {})
                \cup ChecksD("C16", "Inv_C16_ListingExact", dL, badL = {}),
          F |-> Checks("-", "Conf_Store_IndexOrder", m.gaps = 0),
          nr |-> Len(o.rows) + Len(o.lists) ]

TraceStR ==
    /\ Line.a = "StR"
    /\ \E R \in { StROutcome(Line.n, Line.x, Line.o) } :
          /\ viol' = AddCapped(viol, R.V)
          /\ drift' = AddCapped(drift, R.F)
          /\ stats' = [ stats EXCEPT !.lines = @ + 1, !.str = @ + R.nr ]
    /\ UNCHANGED << pst, D, nodes, dlv, sto, psto, rrv, meta, cev, ctx, base, last, pools, lostSet, evals, fames, ref, sub >>

\* the node is killed (or shut down): what the interrupted step delivered
\* before the kill counts as delivered
TraceCrash ==
    /\ Line.a = "Crash"
    /\ LET n == Line.n
           dlv1 == [ dlv EXCEPT ![n] = @ \o AsSeq(Line.o.blocks) ]
           from == Len(dlv[n]) + 1
       IN  /\ dlv' = dlv1
           /\ viol' = AddCapped(viol,
                 Checks("C11", "Inv_C11_AgreementAtCrash", Line.o.blocks = << >> \/ Inv_C01_Agreement(dlv1, lostSet, n, from))
                 \cup Checks("C11", "Inv_C11_ConsecutiveAtCrash", Line.o.blocks = << >> \/ Inv_C02_Consecutive(dlv1[n], from, base[n].idx)))
    /\ stats' = [ stats EXCEPT !.lines = @ + 1, !.crashes = @ + (IF Line.o.clean THEN 0 ELSE 1) ]
    /\ UNCHANGED << pst, D, nodes, sto, psto, rrv, meta, cev, ctx, base, last, pools, lostSet, evals, fames, ref, sub, drift >>

\* hashgraph.Bootstrap: every event of the database, in topological order,
\* through the normal insertion + consensus path; the signature pool is
\* processed after every batch of 100 and at the end.  core.setHeadAndSeq.
\* (BootLoop / BootNode: Core.tla)

BootOutcome(n, x, o) ==
    LET es == AsSeq(x.order)
        eset == SeqToSet(es)
        me == x.me
        \* node.Init leaves a node that finds itself outside the validator set in
        \* the Joining state: head and seq are only computed (setHeadAndSeq) when
        \* its join request has been answered
        joining == "state" \in DOMAIN o /\ o.state = "Joining"
        nd0 == BootNode(D, AsSeq(x.genesis), me, es)
        nd1 == IF joining THEN [ nd0 EXCEPT !.head = NoEv, !.seq = -1 ] ELSE nd0
        h1 == nd1.h
        old == dlv[n]
        re == AsSeq(o.blocks)
        dlv1 == [ dlv EXCEPT ![n] = re ]
        before == DOMAIN nodes[n].h.E
        mine == { e \in eset : D[e].c = me }
        top == MaxOfSet({ D[e].i : e \in mine }, -1)
        rrNew == Strict([ e \in { o.rr[k].e : k \in 1..Len(o.rr) } |->
                           o.rr[CHOOSE k \in 1..Len(o.rr) : o.rr[k].e = e].rr ])
        knownOK == \A k \in 1..Len(o.known) :
                      o.known[k].i = MaxOfSet({ D[e].i : e \in { f \in eset : D[f].c = o.known[k].c } }, -1)
        V == Checks("C11", "Inv_C11_BootstrapSucceeds", ~o.err)
             \cup Checks("C11", "Inv_C11_Redelivery",
                         /\ Len(re) >= Len(old)
                         /\ \A k \in 1..MinI(Len(old), Len(re)) :
                               BodyFields(re[k]) = BodyFields(old[k]) /\ re[k].evs = old[k].evs)
             \cup Checks("C11", "Inv_C11_KnowsCompletedInsertions", before \subseteq eset)
             \cup Checks("C11", "Inv_C11_KnowsOnlyWritten", o.nev = Len(es) /\ knownOK)
             \cup Checks("C11", "Inv_C11_HeadRestored",
                         joining \/
                         (/\ o.seq = top /\ o.seq >= x.emitted
                          /\ IF top = -1 THEN o.head = "" ELSE (o.head \in mine /\ D[o.head].i = top)))
             \cup Checks("C11", "Inv_C11_AgreementAfterRestart", Inv_C01_Agreement(dlv1, lostSet, n, 1))
             \cup Checks("C11", "Inv_C11_ConsecutiveAfterRestart", Inv_C02_Consecutive(re, 1, base[n].idx))
             \cup Checks("C02", "Inv_C02_StoreKeepsDelivered", Inv_C02_StoreKeepsDelivered(re, AsSeq(o.store)))
             \cup Checks("C09", "Inv_C09_RecordedSigsValid", Inv_C09_RecordedSigsValid(o))
        \* (events reloaded from the database carry no round / lamport: reported negative)
        ov == [ vals |-> SelectSeq(AsSeq(o.vals), LAMBDA v : v.r >= 0 /\ v.l >= 0) ]
        F == Checks("-", "Conf_Boot_Vals", ConfVals(h1, ov))
             \cup Checks("-", "Conf_Boot_RR", ConfRR(h1, o))
             \cup Checks("-", "Conf_Boot_Rounds", ConfRounds(h1, o))
             \cup Checks("-", "Conf_Boot_Blocks", ConfBlocks(h1.out, o))
             \cup Checks("-", "Conf_Boot_Known", ConfKnown(h1, o))
             \cup Checks("-", "Conf_Boot_Core", ConfCore(nd1, o))
             \cup Checks("-", "Conf_Boot_Scalars", ConfScalars(h1, o))
             \cup Checks("-", "Conf_Boot_Anchor", ConfAnchor(h1, o))
             \cup Checks("-", "Conf_Boot_PS", ConfPS(h1, o))
    IN  [ nd |-> nd1, dlv |-> dlv1, rr |-> rrNew, V |-> V, F |-> F,
          cev |-> UNION { SeqToSet(re[k].evs) : k \in 1..Len(re) },
          ctx |-> BagAdd(<< >>, Flatten([ k \in 1..Len(re) |-> AsSeq(re[k].txs) ])) ]

TraceBootstrap ==
    /\ Line.a = "Bootstrap"
    /\ \E R \in { BootOutcome(Line.n, Line.x, Line.o) } :
        LET n == Line.n IN
          /\ nodes' = [ nodes EXCEPT ![n] = R.nd ]
          /\ dlv' = R.dlv
          /\ sto' = [ sto EXCEPT ![n] = AsSeq(Line.o.store) ]
          /\ psto' = [ psto EXCEPT ![n] = << >> ]
          /\ rrv' = [ rrv EXCEPT ![n] = R.rr ]
          /\ pools' = [ pools EXCEPT ![n] = << >> ]
          /\ last' = [ last EXCEPT ![n] = [ lcr |-> Line.o.lcr, ps |-> PSTable(Line.o.ps), anchor |-> Line.o.anchor, lr |-> Line.o.lastRound ] ]
          /\ cev' = [ cev EXCEPT ![n] = R.cev ]
          /\ ctx' = [ ctx EXCEPT ![n] = R.ctx ]
          /\ viol' = AddCapped(viol, R.V)
          /\ drift' = AddCapped(drift, R.F)
    /\ stats' = [ stats EXCEPT !.lines = @ + 1, !.boots = @ + 1, !.blocks = @ + Len(Line.o.blocks) ]
    /\ UNCHANGED << pst, D, meta, ref, base, lostSet, evals, fames, sub >>

-----------------------------------------------------------------------------
(* codec mode (C15): one executed case of CodecCases.tla                    *)

TraceCodec ==
    /\ Line.a = "Codec"
    /\ LET x == Line.x
           o == Line.o
           d == x.kind \o ":" \o x.path \o (IF o.err = "" THEN "" ELSE ":" \o o.err)
       IN  /\ viol' = AddCapped(viol,
                  ChecksD("C15", "Inv_C15_ConversionSucceeds", d, o.err = "")
                  \cup ChecksD("C15", "Inv_C15_SameHash", d, o.err # "" \/ o.h1 = o.h0)
                  \cup ChecksD("C15", "Inv_C15_SignaturesStillValid", d, o.err # "" \/ (o.s0 => o.s1))
                  \cup ChecksD("C15", "Inv_C15_SamePayload", d, o.err # "" \/ o.p1 = o.p0))
           /\ drift' = AddCapped(drift, Checks("-", "Conf_Codec_CaseOfSpec", IsCase(x))
                                        \cup Checks("-", "Conf_Codec_ValidBefore", o.s0))
    /\ stats' = [ stats EXCEPT !.lines = @ + 1, !.codec = @ + 1 ]
    /\ UNCHANGED << pst, D, nodes, dlv, sto, psto, rrv, meta, cev, ctx, base, last, pools, lostSet, evals, fames, ref, sub >>

-----------------------------------------------------------------------------
(* proxy mode (C20): one executed case of ProxyCases.tla                    *)

\* the acknowledged transactions arrive, byte-identical, in submission order
\* (a retried call may deliver one twice; nothing else may arrive)
RECURSIVE IsSubseq(_, _, _, _)
IsSubseq(a, b, i, j) ==
    IF i > Len(a) THEN TRUE
    ELSE IF j > Len(b) THEN FALSE
    ELSE IF a[i] = b[j] THEN IsSubseq(a, b, i + 1, j + 1) ELSE IsSubseq(a, b, i, j + 1)

ProxyOutcome(x, o) ==
    LET d == x.kind \o ":" \o x.via \o ":" \o x.fault IN
    CASE x.kind = "commit" ->
           LET okRuns == { k \in 1..Len(o.runs) : ~o.runs[k].err } IN
           ChecksD("C20", "Inv_C20_BlockIdentical", d,
                   \A k \in 1..Len(o.runs) : o.runs[k].h = o.sent_h /\ o.runs[k].p = o.sent_p)
           \cup ChecksD("C20", "Inv_C20_ResponseIdentical", d,
                        o.ok => (o.resp_got = o.resp_sent /\ \E k \in okRuns : o.runs[k].resp = o.resp_got))
           \cup ChecksD("C20", "Inv_C20_NoEmptySuccess", d, o.ok => okRuns # {})
           \cup ChecksD("C20", "Inv_C20_HandlerErrorReported", d, (o.herr /\ okRuns = {}) => ~o.ok)
           \cup ChecksD("C20", "Inv_C20_InmemNeverFailsByItself", d, (x.via = "inmem" /\ ~o.herr) => o.ok)
      [] x.kind = "snapshot" ->
           ChecksD("C20", "Inv_C20_SnapshotIdentical", d,
                   /\ o.get_same
                   /\ \A k \in 1..Len(o.restore_seen) : o.restore_seen[k] = o.want)
           \cup ChecksD("C20", "Inv_C20_NoEmptySuccess", d,
                        /\ o.get_ok => o.get_runs_ok > 0
                        /\ o.restore_ok => o.restore_runs_ok > 0)
      [] x.kind = "submit" ->
           LET sentIds == { o.sent[k].id : k \in 1..Len(o.sent) } IN
           ChecksD("C20", "Inv_C20_SubmitIdentical", d,
                   /\ \A k \in 1..Len(o.received) : o.received[k] \in sentIds \cup {"probe"}
                   /\ IsSubseq(AsSeq(o.acked), AsSeq(o.received), 1, 1))
           \cup ChecksD("C20", "Inv_C20_InmemNeverFailsByItself", d, x.via = "inmem" => Len(o.acked) = Len(o.sent))
      [] OTHER -> {}

TraceProxy ==
    /\ Line.a = "Proxy"
    /\ viol' = AddCapped(viol, ProxyOutcome(Line.x, Line.o))
    /\ drift' = AddCapped(drift, Checks("-", "Conf_Proxy_CaseOfSpec", IsProxyCase(Line.x)))
    /\ stats' = [ stats EXCEPT !.lines = @ + 1, !.proxy = @ + 1 ]
    /\ UNCHANGED << pst, D, nodes, dlv, sto, psto, rrv, meta, cev, ctx, base, last, pools, lostSet, evals, fames, ref, sub >>

\* lines that carry no specification step (the driver could not run the step)
\* the node's read-only API: validator set by round (future rounds included) and
\* blocks by index
TraceApiRead ==
    /\ Line.a = "ApiRead"
    /\ LET o == Line.o
           n == Line.n
           tb == PSTable(o.ps)
           V == Checks("C10", "Inv_C10_ValidatorSetOfRound",
                       \A k \in 1..Len(o.sets) : AsSeq(o.sets[k].peers) = EffectiveAt(tb, o.sets[k].r))
                \cup Checks("C02", "Inv_C02_ApiKeepsDelivered",
                       n \notin DOMAIN dlv \/
                       \A k \in 1..Len(o.blocks) :
                           LET b == BlockAt(dlv[n], o.blocks[k].idx) IN
                           b = << >> \/ StoredDigOf(b[1]) = o.blocks[k].dig)
       IN  viol' = AddCapped(viol, V)
    /\ stats' = Bump(stats, "lines")
    /\ UNCHANGED << pst, D, nodes, dlv, sto, psto, rrv, meta, cev, ctx, base, last, pools, lostSet, evals, fames, ref, sub, drift >>

\* the peer a node would gossip with next (peer_selector.go; PeerSelector.tla): one of
\* its current peers, never itself, not the peer of the exchange just finished unless
\* that is the only one.  Not one of the listed properties: reported as drift.
TraceSelect ==
    /\ Line.a = "Select"
    /\ LET x == Line.x
           F == Checks("-", "Conf_Selector", PickOK(SeqToSet(x.peers), x.self, x.last, Line.o.picked))
       IN  drift' = AddCapped(drift, F)
    /\ stats' = Bump(stats, "lines")
    /\ UNCHANGED << pst, D, nodes, dlv, sto, psto, rrv, meta, cev, ctx, base, last, pools, lostSet, evals, fames, ref, sub, viol >>

\* C11: the database a kill left behind could not even be opened
TraceReopenFailed ==
    /\ Line.a = "ReopenFailed"
    /\ viol' = AddCapped(viol, ChecksD("C11", "Inv_C11_BootstrapSucceeds", "database-cannot-be-reopened", FALSE))
    /\ stats' = Bump(stats, "lines")
    /\ UNCHANGED << pst, D, nodes, dlv, sto, psto, rrv, meta, cev, ctx, base, last, pools, lostSet, evals, fames, ref, sub, drift >>

TraceNoop ==
    /\ Line.a \in { "SyncFail", "Note", "StateChange" }
    /\ stats' = Bump(stats, "lines")
    /\ UNCHANGED << pst, D, nodes, dlv, sto, psto, rrv, meta, cev, ctx, base, last, pools, lostSet, evals, fames, ref, sub, viol, drift >>

TraceStep ==
    /\ l <= NLines
    /\ l' = l + 1
    /\ \/ TraceReset \/ TraceCreate \/ TraceSubmit \/ TraceSync \/ TraceNoop \/ TraceApiRead \/ TraceSelect \/ TraceReopenFailed
       \/ TraceQuorum \/ TraceQuorumAccept \/ TraceMedian \/ TraceHgInsert \/ TraceInstance
       \/ TraceNodeUp \/ TraceAddItx \/ TraceOpDone \/ TraceOffer \/ TraceLiveCheck \/ TraceFFOffer
       \/ TraceRpc \/ TraceStateRpc \/ TraceHeartbeat \/ TraceBytes
       \/ TraceStW \/ TraceStR \/ TraceCrash \/ TraceBootstrap \/ TraceCodec \/ TraceProxy

TraceDone ==
    /\ l = NLines + 1
    /\ l' = l + 1
    /\ PrintT(<< "@@VIOL", viol >>)
    /\ PrintT(<< "@@DRIFT", drift >>)
    /\ PrintT(<< "@@STATS", stats >>)
    /\ PrintT(<< "@@DONE", NLines >>)
    /\ UNCHANGED << pst, D, nodes, dlv, sto, psto, rrv, meta, ref, cev, ctx, base, last, pools, lostSet, evals, fames, sub, viol, drift, stats >>

TNext == TraceStep \/ TraceDone

TSpec == TInit /\ [][TNext]_vars

\* Trace validation explores one linear behaviour: a state is identified by
\* the position in the trace (saves fingerprinting the whole, large, state)
TView == l

\* the error-trace projection (keeps TLC output small)
TAlias == [ l |-> l, viol |-> viol, drift |-> drift ]

=============================================================================
