SPECIFICATION CSpec
CONSTANTS
  Creators = {1,2}
  Nodes = {1,2}
  Genesis <- CGen2
  Limits = {1, 100}
  MaxEvents = 7
  MaxTx = 1
  MaxMsgs = 1
  Silent = {}
  NoEv <- CNoEv
  RootDepth = 2
  ActivationDelay = 2
  CoinFreq = 4
  CheckIndex = TRUE
  MaxCrashes = 1
VIEW CView
INVARIANTS C01_Agreement C02_Consecutive C02_StoreKeepsDelivered C04_Causal C05_Integrity C07_Chains C09_AnchorTrusted C11_Redelivery C11_HeadRestored
PROPERTIES C11_AppendOnly
CHECK_DEADLOCK FALSE
