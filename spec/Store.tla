------------------------------- MODULE Store -------------------------------
(***************************************************************************)
(* src/hashgraph/badger_store.go seen from outside: the persistent store   *)
(* is a durable map.  This module is the "trivially correct model" of C16: *)
(*   kv    key -> digest of the last value written under that key          *)
(*         (ev:<hash> blk:<index> frm:<round> rnd:<round> ps:<round>       *)
(*          root:<participant>)                                            *)
(*   topo  the keys of the events in the order of their first write        *)
(*         (dbSetEvents writes the topological key only for a new event)   *)
(*   part  creator -> keys of its events in the order of their first write *)
(*         (= index order: InsertEvent only accepts index = last + 1)      *)
(* Writes are rows [k, key, v] (+ c, i for events; ifabsent for the empty  *)
(* root written when a participant is first seen).  Reads are rows         *)
(* [key, path, got]: path "pub" went through the public Store methods      *)
(* (cache first), path "db" straight to Badger.                            *)
(* The cache in front of the database is not part of the abstract state:   *)
(* that is the property.  StoreMC.tla models cache + database explicitly   *)
(* and checks that refinement on a small instance.                         *)
(***************************************************************************)
EXTENDS BabbleBase

PS0 == [ kv |-> EmptyFun, topo |-> << >>, part |-> EmptyFun, gaps |-> 0 ]

PWrite(m, w) ==
    LET isNew == w.key \notin DOMAIN m.kv
    IN  IF w.k = "ev"
        THEN LET sofar == Get(m.part, w.c, << >>)
             IN  [ kv   |-> Ext(m.kv, w.key, w.v),
                   topo |-> IF isNew THEN Append(m.topo, w.key) ELSE m.topo,
                   part |-> IF isNew THEN Ext(m.part, w.c, Append(sofar, w.key)) ELSE m.part,
                   gaps |-> IF isNew /\ w.i # Len(sofar) THEN m.gaps + 1 ELSE m.gaps ]
        ELSE IF "ifabsent" \in DOMAIN w /\ ~isNew THEN m
        ELSE [ m EXCEPT !.kv = Ext(m.kv, w.key, w.v) ]

RECURSIVE PWriteRows(_, _, _)
PWriteRows(m, rows, k) ==
    IF k > Len(rows) THEN m ELSE PWriteRows(PWrite(m, rows[k]), rows, k + 1)

\* a read returns the value last written
PReadOK(m, r) == r.key \in DOMAIN m.kv /\ r.got = m.kv[r.key]

Drop(s, k) == IF k >= Len(s) THEN << >> ELSE SubSeq(s, k + 1, Len(s))

\* a listing is exact: every stored event once, in order, without gaps
PListOK(m, q) ==
    /\ "err" \notin DOMAIN q
    /\ CASE q.what = "topo" -> q.got = m.topo
         [] q.what = "part" -> q.got = Drop(Get(m.part, q.c, << >>), q.skip + 1)
         [] q.what = "pidx" -> LET s == Get(m.part, q.c, << >>)
                               IN  q.skip + 1 \in DOMAIN s /\ q.got = << s[q.skip + 1] >>
         [] OTHER -> TRUE

=============================================================================
