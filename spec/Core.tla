------------------------------- MODULE Core -------------------------------
(***************************************************************************)
(* src/node/core.go as operators over one node record                      *)
(*   nd = [h, head, seq, heads, txpool, itxpool, acceptedRound]            *)
(* h is the Hashgraph.tla record (it also carries the commit-side fields   *)
(* validators / selfSigs / targetRound / removedRound).                    *)
(*                                                                         *)
(* One operator per method: Busy, EventDiff, Sync (per-event insert with   *)
(* the normal-self-parent-error skip and the heads bookkeeping),           *)
(* RecordHeads, AddSelfEvent (pools captured before the insert and         *)
(* trimmed by the captured counts after it), Monologue.                    *)
(***************************************************************************)
EXTENDS Hashgraph

InitCore(genesis, me) ==
    [ h |-> InitHG(genesis, me),
      head |-> NoEv,
      seq |-> -1,
      heads |-> EmptyFun,          \* creator -> event id (NoEv for a nil entry)
      txpool |-> << >>,
      itxpool |-> << >>,
      acceptedRound |-> -1 ]

Busy(nd) ==
    \/ nd.h.loaded > 0
    \/ nd.txpool # << >>
    \/ nd.itxpool # << >>
    \/ nd.h.selfSigs # {}
    \/ (nd.h.lcr # -1 /\ nd.h.lcr < nd.h.targetRound)

\* core.eventDiff: everything above the other side's known index, in this
\* node's insertion order
EventDiff(D, nd, known) ==
    SelectSeq(nd.h.ins, LAMBDA e : D[e].i > Get(known, D[e].c, -1))

Truncate(s, limit) == IF Len(s) > limit THEN SubSeq(s, 1, limit) ELSE s

\* ReadWireInfo can resolve creator and parents (by creator id and index)
WireResolvable(D, h, e) ==
    /\ D[e].c \in Repertoire(h)
    /\ D[e].sp = NoEv \/ (D[D[e].sp].i \in DOMAIN h.pe[D[e].c] /\ h.pe[D[e].c][D[D[e].sp].i] = D[e].sp)
    /\ D[e].op = NoEv \/ (/\ D[D[e].op].c \in Repertoire(h)
                          /\ D[D[e].op].i \in DOMAIN h.pe[D[D[e].op].c]
                          /\ h.pe[D[D[e].op].c][D[D[e].op].i] = D[e].op)

\* checkSelfParent fails with the "normal" error: creator has events and the
\* self-parent is not the last one (typically: event already known)
NormalSelfParentError(D, h, e) ==
    /\ D[e].c \in Repertoire(h)
    /\ DOMAIN h.pe[D[e].c] # {}
    /\ D[e].sp # LastFrom(h, D[e].c)

\* classification of one insertion attempt through core.sync
SyncClass(D, h, e) ==
    IF ~WireResolvable(D, h, e) THEN "abort"
    ELSE IF ~SigOK(D, e) THEN "abort"
    ELSE IF NormalSelfParentError(D, h, e) THEN "skip"
    ELSE IF Admissible(D, h, e) THEN "insert"
    ELSE "abort"

\* the per-event loop of core.sync.  st = [nd, oh (other head), err, acc]
RECURSIVE SyncLoop(_, _, _, _)
SyncLoop(D, st, from, es) ==
    IF es = << >> \/ st.err THEN st
    ELSE
    LET e  == Head(es)
        nd == st.nd
        cl == SyncClass(D, nd.h, e)
    IN  IF cl = "abort" THEN [ st EXCEPT !.err = TRUE ]
        ELSE IF cl = "skip" THEN SyncLoop(D, st, from, Tail(es))
        ELSE
        LET h1 == InsertAndRun(D, nd.h, e)
            c  == D[e].c
            mine == c = nd.h.me
            hd == nd.heads
            hd1 == IF c \in DOMAIN hd /\ hd[c] # NoEv /\ D[e].i > D[hd[c]].i
                   THEN Without(hd, c) ELSE hd
            nd1 == [ nd EXCEPT !.h = h1,
                               !.head = IF mine THEN e ELSE @,
                               !.seq = IF mine THEN D[e].i ELSE @,
                               !.heads = hd1 ]
        IN  SyncLoop(D, [ st EXCEPT !.nd = nd1,
                                     !.oh = IF c = from THEN e ELSE @,
                                     !.acc = Append(@, e) ],
                     from, Tail(es))

\* core.sync up to (not including) recordHeads
SyncInsert(D, nd, from, es) ==
    LET st == SyncLoop(D, [ nd |-> nd, oh |-> NoEv, err |-> FALSE, acc |-> << >> ], from, es)
        hd == st.nd.heads
        set == \/ from \notin DOMAIN hd
               \/ hd[from] = NoEv
               \/ (st.oh # NoEv /\ D[st.oh].i > D[hd[from]].i)
    IN  IF st.err THEN st
        ELSE [ st EXCEPT !.nd.heads = IF set THEN Ext(hd, from, st.oh) ELSE hd ]

WantsRecord(nd) == Busy(nd) \/ nd.seq < 0

\* addSelfEvent is allowed to create (acceptedRound reached)
MayCreate(nd) == nd.h.lastRound >= nd.acceptedRound

\* the payload addSelfEvent puts in the new event
SelfPayload(nd) ==
    [ txs |-> nd.txpool, itxs |-> nd.itxpool,
      sigs |-> SetToSeq(nd.h.selfSigs) ]

\* addSelfEvent once the event e (already in D, built from SelfPayload) exists
AddSelfEvent(D, nd, e) ==
    LET ntx == Len(nd.txpool)
        nitx == Len(nd.itxpool)
        captured == nd.h.selfSigs
        h1 == InsertAndRun(D, nd.h, e)
    IN  [ nd EXCEPT !.h = [ h1 EXCEPT !.selfSigs = @ \ captured ],
                    !.head = e, !.seq = D[e].i,
                    !.txpool = SubSeq(@, ntx + 1, Len(@)),
                    !.itxpool = SubSeq(@, nitx + 1, Len(@)) ]

-----------------------------------------------------------------------------
(* Bootstrap: the events of the database, in topological (insertion) order,  *)
(* go through the normal insertion + consensus path into a fresh hashgraph;  *)
(* the signature pool is processed after every batch of 100 and at the end;  *)
(* then core.setHeadAndSeq.                                                   *)

RECURSIVE BootLoop(_, _, _, _)
BootLoop(D, h, es, k) ==
    IF k > Len(es) THEN ProcessSigPool(h)
    ELSE LET h1 == InsertAndRun(D, h, es[k])
             h2 == IF k % 100 = 0 THEN ProcessSigPool(h1) ELSE h1
         IN  BootLoop(D, h2, es, k + 1)

BootNode(D, gen, me, es) ==
    LET h == BootLoop(D, InitHG(gen, me), es, 1)
        hd == LastFrom(h, me)
    IN  [ InitCore(gen, me) EXCEPT !.h = h, !.head = hd, !.seq = IF hd = NoEv THEN -1 ELSE D[hd].i ]

=============================================================================
