----------------------------- MODULE CodecCases -----------------------------
(***************************************************************************)
(* C15: the encodings of events, blocks and frames are identities on what  *)
(* is hashed and signed.                                                   *)
(*                                                                         *)
(* The property quantifies over object shapes and conversion paths.  This  *)
(* module is the finite abstraction of that domain: the case analysis of   *)
(* the encoders (nil vs empty slices, empty / binary / many transactions,  *)
(* internal transactions, block signatures, parent combinations, map sizes)*)
(* times the paths an object can travel.  TLC enumerates the domain and     *)
(* writes it out (codec_cases.json); the driver executes EVERY case         *)
(* against the real encoders and decoders; Trace.tla then checks, per       *)
(* executed case, that it is a case of this module and that hash,           *)
(* signatures and payload survived (Inv_C15_xxx), and the runner checks that *)
(* no case of the domain was left out.                                      *)
(*                                                                         *)
(* The small state machine below is the abstract statement: an object that  *)
(* travels any sequence of paths keeps its identity.                        *)
(***************************************************************************)
EXTENDS Naturals, Sequences, FiniteSets

TxShapes     == { "nil", "empty", "one-empty", "binary", "many" }
ItxShapes    == { "nil", "empty", "one", "three" }
SigShapes    == { "nil", "empty", "one", "three" }
ParentShapes == { "none", "self", "self-other", "other-only" }
EventPaths   == { "wire", "wire-json", "db", "db-wire" }

EventCases == [ kind : {"event"}, txs : TxShapes, itxs : ItxShapes, sigs : SigShapes,
                parents : ParentShapes, path : EventPaths ]

BlockCases == [ kind : {"block"}, txs : TxShapes, itxs : ItxShapes, rcpt : {"nil", "some"},
                nsig : {0, 1, 3}, path : {"json", "db"} ]

FrameCases == [ kind : {"frame"}, nev : {0, 1, 5}, roots : {"empty", "events"},
                npeers : {1, 3}, npsets : {1, 3}, path : {"json", "db", "refill"} ]

IsCase(x) ==
    CASE x.kind = "event" -> [ kind |-> "event", txs |-> x.txs, itxs |-> x.itxs, sigs |-> x.sigs,
                               parents |-> x.parents, path |-> x.path ] \in EventCases
      [] x.kind = "block" -> [ kind |-> "block", txs |-> x.txs, itxs |-> x.itxs, rcpt |-> x.rcpt,
                               nsig |-> x.nsig, path |-> x.path ] \in BlockCases
      [] x.kind = "frame" -> [ kind |-> "frame", nev |-> x.nev, roots |-> x.roots, npeers |-> x.npeers,
                               npsets |-> x.npsets, path |-> x.path ] \in FrameCases
      [] OTHER -> FALSE

\* what must survive a conversion
Identity(before, after) ==
    /\ after.hash = before.hash
    /\ before.sigok => after.sigok
    /\ after.payload = before.payload

=============================================================================
