------------------------------- MODULE Quorum -------------------------------
(***************************************************************************)
(* C19: the two thresholds of peers.PeerSet, as arithmetic facts.          *)
(*   SuperMajority(n) = 2n/3 + 1 (Go integer division)                     *)
(*   a block is trusted with k signatures iff k > TrustCount(n),           *)
(*   TrustCount(n) = 0 for n <= 1 and ceil(n/3) otherwise.                 *)
(* TLC checks the lemmas for every n in 1..NMax (one state per n).         *)
(***************************************************************************)
EXTENDS BabbleBase

CONSTANT NMax
VARIABLE n

\* m is the least integer strictly greater than 2k/3
LeastAboveTwoThirds(m, k) == 3 * m > 2 * k /\ 3 * (m - 1) <= 2 * k

\* the largest f with 3f < k  ("fewer than a third are faulty")
FMax(k) == (k - 1) \div 3

\* the least number of signatures that makes a block trusted
MinTrusted(k) == TrustCount(k) + 1

C19_SuperMajority == LeastAboveTwoThirds(SuperMajority(n), n)

C19_Trust ==
    /\ 3 * MinTrusted(n) > n                \* strictly more than n/3
    /\ (MinTrusted(n) = 1) <=> (n = 1)      \* a single signature only for n = 1
    /\ MinTrusted(n) <= n                   \* attainable
    /\ MinTrusted(n) > FMax(n)              \* at least one honest signer

\* two super-majorities share more than n/3 validators
C19_Intersection == 3 * (2 * SuperMajority(n) - n) > n

\* a super-majority holds more honest than faulty validators
C19_HonestMajority == SuperMajority(n) - FMax(n) > FMax(n)

Init == n = 1
Next == n < NMax /\ n' = n + 1
Spec == Init /\ [][Next]_n
=============================================================================
