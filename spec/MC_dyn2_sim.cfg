SPECIFICATION SpecDyn
CONSTANTS
  Creators = {1,2}
  Nodes = {1,2}
  Genesis <- Gen2
  Joiners = {}
  Leavers = {2}
  Refused = {}
  Limits = {100}
  MaxEvents = 24
  MaxTx = 3
  MaxMsgs = 1
  Silent = {}
  NoEv <- MCNoEv
  RootDepth = 2
  ActivationDelay = 1
  CoinFreq = 4
  CheckIndex = TRUE
VIEW MCView
INVARIANTS C01_Agreement C02_Consecutive C02_StoreKeepsDelivered C04_Causal C05_Integrity C07_Chains FameUnambiguous C03_SameValues C03_SameFame C09_AnchorTrusted C10_HistoryIsReplay C10_SameAcrossNodes C10_BlockPeers C10_MembersOnly
PROPERTIES C02_AppendOnly C10_NoRetroactive
CHECK_DEADLOCK FALSE
