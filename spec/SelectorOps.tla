---------------------------- MODULE SelectorOps ----------------------------
(* The selection rule of src/node/peer_selector.go as pure operators (used by *)
(* PeerSelector.tla and evaluated by Trace.tla on recorded selections).       *)
EXTENDS Integers, FiniteSets

Selectable(ps, self) == ps \ {self}

\* what next() may return
Candidates(ps, self, lst) ==
    LET s == Selectable(ps, self) IN
    IF Cardinality(s) > 1 THEN s \ {lst} ELSE s

PickOK(ps, self, lst, p) ==
    IF Selectable(ps, self) = {} THEN p = 0 ELSE p \in Candidates(ps, self, lst)

=============================================================================
