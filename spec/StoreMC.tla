------------------------------ MODULE StoreMC ------------------------------
(***************************************************************************)
(* badger_store.go with its two layers made explicit: a bounded LRU cache  *)
(* in front of a durable map.  Checks the refinement that Store.tla takes  *)
(* for granted: whatever the cache holds or has evicted, a read returns    *)
(* the value last written - across crashes (cache lost, database kept) and *)
(* during a bootstrap, which re-writes every key from version 0 upwards    *)
(* ("replay") in maintenance mode.                                         *)
(*                                                                         *)
(* Values are version numbers: the coordinates of an event only grow, and  *)
(* the replay walks through the same versions again.                       *)
(*                                                                         *)
(* WriteThroughInMaintenance = FALSE is the store before commit            *)
(* "fix: write events to the database while bootstrapping too": the replay *)
(* writes to the cache only, an evicted key is read back from the database *)
(* with the version of the previous run.  MC_store_mut.cfg expects TLC to  *)
(* find that counterexample.                                               *)
(***************************************************************************)
EXTENDS Integers, Sequences, FiniteSets, TLC

CONSTANTS Keys, MaxVer, CacheSize, WriteThroughInMaintenance

VARIABLES db,      \* durable: key -> version (absent: -1)
          cache,   \* sequence of << key, version >>, most recently used last
          model,   \* key -> version last written (what a read must return)
          mm,      \* maintenance mode (bootstrap replay in progress)
          todo,    \* keys the replay still has to bring up to date
          target   \* key -> version the replay must reach (what the previous run had written)

vars == << db, cache, model, mm, todo, target >>

InCache(k) == \E i \in 1..Len(cache) : cache[i][1] = k
CacheVal(k) == cache[CHOOSE i \in 1..Len(cache) : cache[i][1] = k][2]
Remove(s, k) == SelectSeq(s, LAMBDA p : p[1] # k)
Put(s, k, v) == LET t == Append(Remove(s, k), << k, v >>)
                IN  IF Len(t) > CacheSize THEN Tail(t) ELSE t

Read(k) == IF InCache(k) THEN CacheVal(k) ELSE db[k]

Init ==
    /\ db = [ k \in Keys |-> -1 ]
    /\ cache = << >>
    /\ model = [ k \in Keys |-> -1 ]
    /\ mm = FALSE
    /\ todo = {}
    /\ target = [ k \in Keys |-> -1 ]

\* normal operation: a key is created at version 0 and then only grows
Set(k) ==
    /\ ~mm
    /\ model[k] < MaxVer
    /\ LET v == model[k] + 1 IN
       /\ cache' = Put(cache, k, v)
       /\ db' = [ db EXCEPT ![k] = v ]
       /\ model' = [ model EXCEPT ![k] = v ]
    /\ UNCHANGED << mm, todo, target >>

\* a read refreshes the recency of a cached key, and loads a missing one
Touch(k) ==
    /\ model[k] >= 0
    /\ cache' = Put(cache, k, Read(k))
    /\ UNCHANGED << db, model, mm, todo, target >>

\* kill + restart with bootstrap: the cache is gone, the replay starts from
\* nothing and will re-create every key the database holds
Crash ==
    /\ ~mm
    /\ cache' = << >>
    /\ mm' = TRUE
    /\ todo' = { k \in Keys : db[k] >= 0 }
    /\ model' = [ k \in Keys |-> -1 ]
    /\ target' = db
    /\ UNCHANGED db

\* one step of the replay: key k reaches its next version
Replay(k) ==
    /\ mm /\ k \in todo
    /\ LET v == model[k] + 1 IN
       /\ cache' = Put(cache, k, v)
       /\ db' = IF WriteThroughInMaintenance THEN [ db EXCEPT ![k] = v ] ELSE db
       /\ model' = [ model EXCEPT ![k] = v ]
       /\ todo' = IF v >= target[k] THEN todo \ {k} ELSE todo
    /\ UNCHANGED << mm, target >>

BootDone ==
    /\ mm /\ todo = {}
    /\ mm' = FALSE
    /\ UNCHANGED << db, cache, model, todo, target >>

Next == \/ \E k \in Keys : Set(k) \/ Touch(k) \/ Replay(k)
        \/ Crash \/ BootDone

Spec == Init /\ [][Next]_vars

\* C16: a read returns the value last written, cached or not
ReadLastWritten == \A k \in Keys : model[k] >= 0 => Read(k) = model[k]

\* C11/C16: outside a bootstrap the database holds every completed write
Durable == ~mm => \A k \in Keys : db[k] = model[k]

TypeOK == /\ Len(cache) <= CacheSize
          /\ \A k \in Keys : db[k] \in -1..MaxVer /\ model[k] \in -1..MaxVer
=============================================================================
