-------------------------------- MODULE Node --------------------------------
(***************************************************************************)
(* src/node/node.go, node_rpc.go: the node-level state machine.            *)
(*                                                                         *)
(*   states      Babbling, CatchingUp, Joining, Suspended, Shutdown        *)
(*   gate        processRPC answers a request only when Babbling, or when  *)
(*               Suspended and the request is a SyncRequest (so that peers *)
(*               learn of the suspension); everything else is refused with *)
(*               an error and touches nothing                              *)
(*   heartbeat   checkSuspend: a babbling node suspends itself when the    *)
(*               undetermined events created since it started exceed       *)
(*               limit x validators, or when it has reached the round of   *)
(*               its own removal                                           *)
(*   transitions Joining -> Babbling | CatchingUp (join answered),         *)
(*               Babbling -> CatchingUp (a pull hits the sync limit, with   *)
(*               fast-sync enabled), CatchingUp -> Babbling (a response    *)
(*               adopted), Babbling -> Suspended (heartbeat), any ->       *)
(*               Shutdown; nothing leaves Suspended or Shutdown            *)
(*                                                                         *)
(* Gate, Mutating and MustSuspend are used by Trace.tla on every recorded  *)
(* request and heartbeat of real nodes (C17); the small state machine      *)
(* below is checked exhaustively: a node that is not babbling never        *)
(* changes its history, a suspended node still serves sync requests, and   *)
(* Suspended / Shutdown are final.                                         *)
(***************************************************************************)
EXTENDS NodeGate

-----------------------------------------------------------------------------
CONSTANTS MaxHist, MaxUndet

VARIABLES state,     \* the node's state
          hist,      \* abstract history: number of changes to DAG / pools / delivered blocks
          undet,     \* undetermined events (abstract counter)
          removed,   \* the node has reached the round of its own removal
          lastReply  \* what the last request got: "none" | "served" | "refused"

vars == << state, hist, undet, removed, lastReply >>

Init == /\ state \in { "Babbling", "Joining" }
        /\ hist = 0 /\ undet = 0 /\ removed = FALSE /\ lastReply = "none"

\* an incoming request
Receive(req) ==
    /\ state # "Shutdown"
    /\ IF Gate(state, req)
       THEN /\ lastReply' = "served"
            /\ hist' = IF Mutating(req) /\ state = "Babbling" /\ hist < MaxHist THEN hist + 1 ELSE hist
       ELSE /\ lastReply' = "refused"
            /\ hist' = hist
    /\ UNCHANGED << state, undet, removed >>

\* the node's own gossip: only when babbling
Gossip ==
    /\ state = "Babbling" /\ hist < MaxHist
    /\ hist' = hist + 1
    /\ undet' \in { u \in 0..MaxUndet : TRUE }
    /\ removed' \in { removed, TRUE }
    /\ UNCHANGED << state, lastReply >>

Heartbeat ==
    /\ state = "Babbling"
    /\ state' = IF undet = MaxUndet \/ removed THEN "Suspended" ELSE "Babbling"
    /\ UNCHANGED << hist, undet, removed, lastReply >>

JoinAnswered == /\ state = "Joining" /\ state' \in { "Babbling", "CatchingUp" }
                /\ UNCHANGED << hist, undet, removed, lastReply >>
FallBehind == /\ state = "Babbling" /\ state' = "CatchingUp"
              /\ UNCHANGED << hist, undet, removed, lastReply >>
\* a fast-forward response adopted: the reset is a change of history by the node itself
Adopt == /\ state = "CatchingUp" /\ state' = "Babbling"
         /\ hist' = IF hist < MaxHist THEN hist + 1 ELSE hist
         /\ UNCHANGED << undet, removed, lastReply >>
Stop == /\ state # "Shutdown" /\ state' = "Shutdown"
        /\ UNCHANGED << hist, undet, removed, lastReply >>

Next == (\E r \in Requests : Receive(r)) \/ Gossip \/ Heartbeat \/ JoinAnswered \/ FallBehind \/ Adopt \/ Stop
Spec == Init /\ [][Next]_vars

\* C17: a request never changes a node that is not babbling
C17_Frozen == [][ (\E r \in Requests : Receive(r)) /\ state # "Babbling" => hist' = hist ]_vars
\* C17: a suspended node still answers sync requests, and only those
C17_SuspendedServesSync ==
    [][ state = "Suspended" => /\ (Receive("SyncRequest") => lastReply' = "served")
                               /\ \A r \in Requests \ {"SyncRequest"} : Receive(r) => lastReply' = "refused" ]_vars
\* nothing leaves Suspended except a shutdown; nothing leaves Shutdown
C17_Final == [][ /\ state = "Suspended" => state' \in { "Suspended", "Shutdown" }
                 /\ state = "Shutdown" => state' = "Shutdown" ]_vars
TypeOK == state \in States /\ hist \in 0..MaxHist /\ undet \in 0..MaxUndet
=============================================================================
