---------------------------- MODULE PeerSelector ----------------------------
(***************************************************************************)
(* src/node/peer_selector.go: the random peer selector that drives gossip  *)
(* (the source of the "every validator repeatedly pulls from every other"  *)
(* assumption of C06).  The selectable peers are the current peer-set      *)
(* without the node itself; next() picks any of them except the peer of    *)
(* the last exchange - unless that is the only one; updateLast records the *)
(* peer of an exchange; a membership change replaces the selectable set    *)
(* (core.processAcceptedInternalTransactions builds a new selector: "last" *)
(* starts again at none).                                                  *)
(*                                                                         *)
(* PickOK is evaluated by Trace.tla on every recorded selection of real    *)
(* Nodes (dyn mode, Select lines: Conf_Selector).                          *)
(***************************************************************************)
EXTENDS SelectorOps

CONSTANTS Universe,     \* all peer ids
          Self

VARIABLES peers,        \* current peer-set (may or may not contain Self)
          last,         \* peer of the last exchange (0: none)
          picked        \* result of the last next() (0: none / nil)

svars == << peers, last, picked >>

Init == peers \in (SUBSET Universe) /\ last = 0 /\ picked = 0

Pick == /\ picked' \in (IF Selectable(peers, Self) = {} THEN {0} ELSE Candidates(peers, Self, last))
        /\ UNCHANGED << peers, last >>

\* an exchange with the picked peer (or with anybody: a served request does not touch "last")
UpdateLast == /\ picked # 0 /\ last' = picked /\ UNCHANGED << peers, picked >>

SetPeers == /\ peers' \in (SUBSET Universe) /\ last' = 0 /\ picked' = 0

Next == Pick \/ UpdateLast \/ SetPeers

Spec == Init /\ [][Next]_svars

NeverSelf == picked # Self
OnlyCurrentPeers == picked = 0 \/ picked \in peers
\* two consecutive selections differ whenever there is a choice
NotTwiceInARow == [][ (Pick /\ Cardinality(Selectable(peers, Self)) > 1 /\ last # 0) => picked' # last ]_svars
NilOnlyWhenAlone == [][ Pick => (picked' = 0 <=> Selectable(peers, Self) = {}) ]_svars
=============================================================================
