SPECIFICATION Spec
CONSTANTS
  Creators = {1,2}
  Nodes = {1,2}
  Genesis <- Gen2
  Limits = {1, 100}
  MaxEvents = 9
  MaxTx = 1
  MaxMsgs = 1
  Silent = {}
  NoEv <- MCNoEv
  RootDepth = 2
  ActivationDelay = 2
  CoinFreq = 4
  CheckIndex = TRUE
VIEW MCView
INVARIANTS C03_OrderIndependent C03_SameValues C01_Agreement
CHECK_DEADLOCK FALSE
