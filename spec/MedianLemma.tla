---------------------------- MODULE MedianLemma ----------------------------
(***************************************************************************)
(* C18 lemma: for a validator set of size n, k >= SuperMajority(n) famous  *)
(* witnesses of which f < n/3 misreport their clocks with arbitrary values,*)
(* the median (common.Median: middle element, or truncated average of the  *)
(* two middle elements) lies within the range of the honest values.        *)
(* One state per (n, k, f); the invariant quantifies over every assignment *)
(* of timestamps: liars over AllVals (extreme and negative included),      *)
(* honest witnesses over HonestVals.  The median is permutation invariant, *)
(* so the liars are taken to be the first f witnesses.                     *)
(***************************************************************************)
EXTENDS BabbleBase

CONSTANTS NMaxM, AllVals, HonestVals
VARIABLES n, k, f

FMaxM(m) == (m - 1) \div 3

MCAllVals == { -1000000, -7, 0, 3, 4, 1000000 }
MCHonestVals == { 0, 3, 4 }

Triples == { << a, b, c >> \in (1..NMaxM) \X (1..NMaxM) \X (0..NMaxM) :
                b >= SuperMajority(a) /\ b <= a /\ c <= FMaxM(a) /\ c < b }

C18_MedianWithinHonestRange ==
    \A lies \in [ 1..f -> AllVals ] :
        \A hon \in [ (f + 1)..k -> HonestVals ] :
            LET ts == [ i \in 1..k |-> IF i <= f THEN lies[i] ELSE hon[i] ]
                hs == { hon[i] : i \in (f + 1)..k }
                m  == Median(ts)
            IN  MinOfSet(hs, 0) <= m /\ m <= MaxOfSet(hs, 0)

\* also: the two middle elements are honest-range values
C18_BracketHonest ==
    \A lies \in [ 1..f -> AllVals ] :
        \A hon \in [ (f + 1)..k -> HonestVals ] :
            LET ts == [ i \in 1..k |-> IF i <= f THEN lies[i] ELSE hon[i] ]
                hs == { hon[i] : i \in (f + 1)..k }
                br == MedianBracket(ts)
            IN  MinOfSet(hs, 0) <= br[1] /\ br[2] <= MaxOfSet(hs, 0)

Init == \E t \in Triples : n = t[1] /\ k = t[2] /\ f = t[3]
Next == UNCHANGED << n, k, f >>
Spec == Init /\ [][Next]_<< n, k, f >>
=============================================================================
