------------------------------ MODULE Babble ------------------------------
(***************************************************************************)
(* System model: N nodes, each a core (Core.tla) over a hashgraph          *)
(* (Hashgraph.tla), exchanging event diffs.                                *)
(*                                                                         *)
(* A pull and a push have the same shape on the receiving side             *)
(* (core.sync(fromID, events)); what differs is who computed the diff and  *)
(* against which known-map.  Both are modelled as a message                *)
(*   [to, from, evs]   created by  Send  (diff of the sender's view        *)
(* against the receiver's known-map at that moment, truncated to a sync    *)
(* limit) and consumed later by  Deliver  - so that other exchanges can     *)
(* interleave between the three lock-delimited steps of node.pull /        *)
(* node.push, responses can be stale, truncated, duplicated or dropped.    *)
(***************************************************************************)
EXTENDS Core

CONSTANTS Nodes,        \* set of node ids = creator ids that run a node
          Genesis,      \* sequence of creators: the genesis validator set
          Limits,       \* set of sync limits tried by Send
          MaxEvents,    \* bound on |D|
          MaxTx,        \* bound on submitted transactions
          MaxMsgs,      \* bound on messages in flight
          Silent        \* set of nodes that never send nor create (crashed / silent)

VARIABLES D,            \* global event table (ghost: every event ever created)
          nodes,        \* node records
          msgs,         \* messages in flight
          submitted     \* ghost: transaction id -> node that accepted it

vars == << D, nodes, msgs, submitted >>

EvId(c, i) == << c, i >>

NewEvent(nd, op, k) ==
    LET c == nd.h.me
        i == nd.seq + 1
        p == SelfPayload(nd)
    IN  [ c |-> c, i |-> i, sp |-> nd.head, op |-> op,
          txs |-> p.txs, itxs |-> p.itxs,
          sigs |-> [ j \in DOMAIN p.sigs |-> [ blk |-> p.sigs[j], q |-> "good" ] ],
          ts |-> 10 * (Cardinality(DOMAIN D) + k) + c,
          sr |-> << (3 * i + 2 * c) % 4, c >>,
          mid |-> (c + i) % 2 = 0,
          ok |-> TRUE ]

Init ==
    /\ D = EmptyFun
    /\ nodes = [ n \in Nodes |-> InitCore(Genesis, n) ]
    /\ msgs = {}
    /\ submitted = EmptyFun

Submit(n) ==
    /\ n \notin Silent
    /\ Cardinality(DOMAIN submitted) < MaxTx
    /\ LET t == Cardinality(DOMAIN submitted) + 1 IN
       /\ submitted' = Ext(submitted, t, n)
       /\ nodes' = [ nodes EXCEPT ![n].txpool = Append(@, t) ]
    /\ UNCHANGED << D, msgs >>

Send(x, y, limit) ==
    /\ x # y /\ x \notin Silent
    /\ Cardinality(msgs) < MaxMsgs
    /\ LET m == [ to |-> y, from |-> x,
                  evs |-> Truncate(EventDiff(D, nodes[x], KnownMap(nodes[y].h)), limit) ]
       IN  /\ m \notin msgs
           /\ msgs' = msgs \cup { m }
    /\ UNCHANGED << D, nodes, submitted >>

Drop(m) ==
    /\ msgs' = msgs \ { m }
    /\ UNCHANGED << D, nodes, submitted >>

\* recordHeads: one self-event per heads entry (smallest creator id first;
\* the implementation uses map order - the trace specification follows the
\* logged order instead)
RECURSIVE RecordHeads(_, _, _)
RecordHeads(DD, nd, k) ==
    IF DOMAIN nd.heads = {} THEN [ D |-> DD, nd |-> nd ]
    ELSE LET c  == MinOfSet(DOMAIN nd.heads, 0)
             op == nd.heads[c]
             rest == Without(nd.heads, c)
         IN  IF ~MayCreate(nd)
             THEN RecordHeads(DD, [ nd EXCEPT !.heads = rest ], k)
             ELSE LET e  == EvId(nd.h.me, nd.seq + 1)
                      D1 == Ext(DD, e, NewEvent(nd, op, k))
                      nd1 == AddSelfEvent(D1, nd, e)
                  IN  RecordHeads(D1, [ nd1 EXCEPT !.heads = rest ], k + 1)

\* (node.pull / processEagerSyncRequest: core.sync, then - unless the sync failed -
\* core.processSigPool)
DeliverOutcome(m) ==
    LET st == SyncInsert(D, nodes[m.to], m.from, m.evs)
        creates == ~st.err /\ WantsRecord(st.nd)
        r == IF creates THEN RecordHeads(D, st.nd, 0) ELSE [ D |-> D, nd |-> st.nd ]
    IN  IF st.err THEN r ELSE [ r EXCEPT !.nd.h = ProcessSigPool(@) ]

\* (the outcome is bound once: TLC does not cache LET values inside an action)
Deliver(m) ==
    /\ m \in msgs
    /\ m.to \notin Silent
    /\ \E res \in { DeliverOutcome(m) } :
          /\ Cardinality(DOMAIN res.D) <= MaxEvents
          /\ D' = res.D
          /\ nodes' = [ nodes EXCEPT ![m.to] = res.nd ]
    /\ msgs' = msgs \ { m }
    /\ UNCHANGED submitted

\* node.monologue: a node alone records its pools
MonologueOutcome(n) ==
    LET e  == EvId(n, nodes[n].seq + 1)
        D1 == Ext(D, e, NewEvent(nodes[n], NoEv, 0))
        nd1 == AddSelfEvent(D1, nodes[n], e)
    IN  [ D |-> D1, nd |-> [ nd1 EXCEPT !.h = ProcessSigPool(@) ] ]

Monologue(n) ==
    /\ n \notin Silent
    /\ Len(PSAt(nodes[n].h, 0)) = 1
    /\ Busy(nodes[n]) /\ MayCreate(nodes[n])
    /\ Cardinality(DOMAIN D) < MaxEvents
    /\ \E res \in { MonologueOutcome(n) } :
          /\ D' = res.D
          /\ nodes' = [ nodes EXCEPT ![n] = res.nd ]
    /\ UNCHANGED << msgs, submitted >>

Next ==
    \/ \E n \in Nodes : Submit(n)
    \/ \E x, y \in Nodes, l \in Limits : Send(x, y, l)
    \/ \E m \in msgs : Deliver(m)
    \/ \E m \in msgs : Drop(m)
    \/ \E n \in Nodes : Monologue(n)

Spec == Init /\ [][Next]_vars

-----------------------------------------------------------------------------
(* Properties                                                              *)

Out(n) == nodes[n].h.out

Body(b) == << b.idx, b.rr, b.txs, b.itxs, b.rcpt, b.evs, b.peers, b.ts >>

\* C01: delivered block sequences are prefix-consistent
C01_Agreement ==
    \A a, b \in Nodes :
        \A i \in 1..MinI(Len(Out(a)), Len(Out(b))) : Body(Out(a)[i]) = Body(Out(b)[i])

\* C02: consecutive indexes from 0, strictly increasing round-received
C02_Consecutive ==
    \A n \in Nodes : \A i \in 1..Len(Out(n)) :
        /\ Out(n)[i].idx = i - 1
        /\ i > 1 => Out(n)[i].rr > Out(n)[i-1].rr

\* C02 (action): delivered blocks only ever get appended
C02_AppendOnly ==
    [][ \A n \in Nodes : IsPrefixOf(Out(n), Out(n)') ]_vars

\* C02: the stored block keeps the delivered body
C02_StoreKeepsDelivered ==
    \A n \in Nodes : \A i \in 1..Len(Out(n)) :
        LET b == Out(n)[i] IN
        /\ b.idx \in DOMAIN nodes[n].h.blocks
        /\ Body(nodes[n].h.blocks[b.idx]) = Body(b)

\* position of an event in a node's committed order
CommittedSeq(n) == Flatten([ i \in 1..Len(Out(n)) |-> Out(n)[i].evs ])

\* C04: committed order extends ancestry; whole and once
C04_Causal ==
    \A n \in Nodes :
        LET cs == CommittedSeq(n) IN
        /\ \A i, j \in 1..Len(cs) : i # j => cs[i] # cs[j]
        /\ \A i, j \in 1..Len(cs) : (i < j) => ~IsAncestor(D, cs[i], cs[j]) \/ cs[i] = cs[j]
        /\ \A i \in 1..Len(Out(n)) :
              Out(n)[i].txs = Flatten([ k \in DOMAIN Out(n)[i].evs |-> D[Out(n)[i].evs[k]].txs ])

\* when a block is delivered every ancestor of its events has been received,
\* in that round or an earlier one (an ancestor may be received later in time
\* than its descendant while an intermediate round is undecided, but not
\* later than the delivery of the descendant's block)
C04_AncestorsFirst ==
    \A n \in Nodes : \A i \in 1..Len(Out(n)) : \A k \in 1..Len(Out(n)[i].evs) :
        \A a \in AncSet(D, Out(n)[i].evs[k]) \cap DOMAIN nodes[n].h.E :
            /\ nodes[n].h.E[a].rr # -1
            /\ nodes[n].h.E[a].rr <= Out(n)[i].rr

\* C05: committed transactions were submitted; none twice; none lost
AllTxs(n) == Flatten([ i \in 1..Len(Out(n)) |-> Out(n)[i].txs ])
C05_Integrity ==
    \A n \in Nodes :
        LET ts == AllTxs(n) IN
        /\ \A i \in 1..Len(ts) : ts[i] \in DOMAIN submitted
        /\ \A i, j \in 1..Len(ts) : i # j => ts[i] # ts[j]

C05_NeverDropped ==
    \A t \in DOMAIN submitted :
        LET n == submitted[t]
            inPool == SeqContains(nodes[n].txpool, t)
            inEvents == { e \in DOMAIN D : D[e].c = n /\ SeqContains(D[e].txs, t) }
        IN  /\ inPool => inEvents = {}
            /\ ~inPool => Cardinality(inEvents) = 1

\* C07: per-creator chains are gap-free and fork-free in every view
C07_Chains ==
    \A n \in Nodes : \A c \in Creators :
        LET pe == nodes[n].h.pe[c] IN
        /\ DOMAIN pe = 0..(Cardinality(DOMAIN pe) - 1)
        /\ \A i \in DOMAIN pe : D[pe[i]].c = c /\ D[pe[i]].i = i
        /\ \A i \in DOMAIN pe : i > 0 => D[pe[i]].sp = pe[i-1]

\* map-order harmlessness: no two voters decide one fame differently
FameUnambiguous == \A n \in Nodes : ~nodes[n].h.ambig

\* the coordinate version of strongly-see is sound w.r.t. the graph definition
SSeeIdeal(n, x, y, P) ==
    Cardinality({ c \in P : \E z \in DOMAIN nodes[n].h.E :
                      D[z].c = c /\ IsAncestor(D, x, z) /\ IsAncestor(D, z, y) })
        >= SuperMajority(Cardinality(P))
SSeeSound ==
    \A n \in Nodes : \A x, y \in DOMAIN nodes[n].h.E :
        LET P == Members(nodes[n].h, 0) IN
        SSee(nodes[n].h.E, x, y, P) => SSeeIdeal(n, x, y, P)

\* C03 as agreement of computed values between views
C03_SameValues ==
    \A a, b \in Nodes : \A e \in DOMAIN nodes[a].h.E \cap DOMAIN nodes[b].h.E :
        LET x == nodes[a].h.E[e]
            y == nodes[b].h.E[e]
        IN  /\ x.rnd = y.rnd /\ x.wit = y.wit /\ x.lt = y.lt
            /\ (x.rr # -1 /\ y.rr # -1) => x.rr = y.rr

C03_SameFame ==
    \A a, b \in Nodes : \A r \in DOMAIN nodes[a].h.R \cap DOMAIN nodes[b].h.R :
        \A w \in DOMAIN nodes[a].h.R[r].ev \cap DOMAIN nodes[b].h.R[r].ev :
            LET fa == nodes[a].h.R[r].ev[w].f
                fb == nodes[b].h.R[r].ev[w].f
            IN  (fa # "U" /\ fb # "U") => fa = fb

\* C03 as stated: what a node computed is a function of the set of events it
\* holds - every other order in which the same events could have been
\* inserted (parents first) leads to the same rounds, witnesses, Lamport
\* timestamps, rounds-received and block bodies.  (Exponential in the number of
\* concurrent events: for the small configuration MC_hg2o only.)
RECURSIVE Linearizations(_)
Linearizations(S) ==
    IF S = {} THEN { << >> }
    ELSE UNION { { << e >> \o s : s \in Linearizations(S \ {e}) } :
                 e \in { x \in S : D[x].sp \notin S /\ D[x].op \notin S } }

ValuesOf(h) == [ e \in DOMAIN h.E |-> << h.E[e].rnd, h.E[e].wit, h.E[e].lt, h.E[e].rr >> ]
BodiesOf(h) == [ i \in 1..Len(h.out) |-> Body(h.out[i]) ]

C03_OrderIndependent ==
    \A n \in Nodes :
        LET h == nodes[n].h IN
        \A s \in Linearizations(DOMAIN h.E) :
            LET g == InsertAllAndRun(D, InitHG(Genesis, n), s) IN
            /\ ValuesOf(g) = ValuesOf(h)
            /\ BodiesOf(g) = BodiesOf(h)

\* C09 (design level): the anchor always has > n/3 signers of its round's set
C09_AnchorTrusted ==
    \A n \in Nodes :
        LET h == nodes[n].h IN
        h.anchor # -1 =>
            LET b == h.blocks[h.anchor] IN
            /\ b.sigs \subseteq Members(h, b.rr)
            /\ Cardinality(b.sigs) > TrustCount(Cardinality(Members(h, b.rr)))

Idle(n) == ~Busy(nodes[n])

\* C06 at design level: under fair scheduling of the live nodes' own steps a
\* node whose work is bounded returns to idle, and every submitted transaction
\* is committed by every live node.  (Only meaningful in configurations whose
\* MaxEvents leaves room for the rounds the submitted transactions need.)
FairSpec ==
    /\ Spec
    /\ \A n \in Nodes \ Silent : WF_vars(Monologue(n))
    /\ \A x, y \in Nodes \ Silent : \A lim \in Limits : WF_vars(Send(x, y, lim))
    /\ SF_vars(\E m \in msgs : Deliver(m))

C06_EventuallyIdle == \A n \in Nodes \ Silent : <>[]Idle(n)
C06_AllCommitted ==
    \A t \in 1..MaxTx : <>[](t \in DOMAIN submitted =>
                              \A n \in Nodes \ Silent : \E i \in 1..Len(Out(n)) : SeqContains(Out(n)[i].txs, t))

=============================================================================
