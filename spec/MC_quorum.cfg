SPECIFICATION Spec
CONSTANTS NMax = 100000
INVARIANTS C19_SuperMajority C19_Trust C19_Intersection C19_HonestMajority
CHECK_DEADLOCK FALSE
