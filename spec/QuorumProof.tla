---------------------------- MODULE QuorumProof ----------------------------
(***************************************************************************)
(* C19 for every n: the lemmas of Quorum.tla (checked by TLC up to         *)
(* n = 100000) proved with TLAPS (SMT back end).  The definitions are      *)
(* repeated here so that the proof module depends on nothing else.         *)
(***************************************************************************)
EXTENDS Integers, TLAPS

SuperMajority(n) == (2 * n) \div 3 + 1
TrustCount(n) == IF n > 1 THEN (n + 2) \div 3 ELSE 0
FMax(k) == (k - 1) \div 3
MinTrusted(k) == TrustCount(k) + 1

THEOREM DivFacts == \A a \in Int : /\ 3 * (a \div 3) <= a
                                   /\ a < 3 * (a \div 3) + 3
                                   /\ (a \div 3) \in Int
  OBVIOUS

THEOREM SuperMajorityIsLeastAboveTwoThirds ==
    \A n \in Nat : /\ 3 * SuperMajority(n) > 2 * n
                   /\ 3 * (SuperMajority(n) - 1) <= 2 * n
  BY DivFacts DEF SuperMajority

THEOREM TrustThreshold ==
    \A n \in Nat : n >= 1 =>
        /\ 3 * MinTrusted(n) > n
        /\ (MinTrusted(n) = 1) <=> (n = 1)
        /\ MinTrusted(n) <= n
        /\ MinTrusted(n) > FMax(n)
<1> SUFFICES ASSUME NEW n \in Nat, n >= 1
             PROVE  /\ 3 * MinTrusted(n) > n
                    /\ (MinTrusted(n) = 1) <=> (n = 1)
                    /\ MinTrusted(n) <= n
                    /\ MinTrusted(n) > FMax(n)
  OBVIOUS
<1>1. CASE n = 1
  <2>1. MinTrusted(n) = 1 BY <1>1 DEF MinTrusted, TrustCount
  <2>2. FMax(n) = 0 BY <1>1, DivFacts DEF FMax
  <2> QED BY <1>1, <2>1, <2>2
<1>2. CASE n > 1
  <2>1. TrustCount(n) = (n + 2) \div 3 BY <1>2 DEF TrustCount
  <2>2. /\ 3 * ((n + 2) \div 3) <= n + 2
        /\ n + 2 < 3 * ((n + 2) \div 3) + 3
        /\ (n + 2) \div 3 \in Int
    BY DivFacts
  <2>3. /\ 3 * ((n - 1) \div 3) <= n - 1
        /\ n - 1 < 3 * ((n - 1) \div 3) + 3
        /\ (n - 1) \div 3 \in Int
    BY DivFacts
  <2>4. MinTrusted(n) = (n + 2) \div 3 + 1 BY <2>1 DEF MinTrusted
  <2>5. FMax(n) = (n - 1) \div 3 BY DEF FMax
  <2> DEFINE q == (n + 2) \div 3
  <2> DEFINE r == (n - 1) \div 3
  <2> HIDE DEF q, r
  <2>6. /\ 3 * q <= n + 2 /\ n + 2 < 3 * q + 3 /\ q \in Int
        /\ 3 * r <= n - 1 /\ n - 1 < 3 * r + 3 /\ r \in Int
    BY <2>2, <2>3 DEF q, r
  <2>6a. q \in Int /\ r \in Int BY <2>6
  <2>7. MinTrusted(n) = q + 1 /\ FMax(n) = r BY <2>4, <2>5 DEF q, r
  <2>8. 3 * (q + 1) > n BY <2>6
  <2>9. q + 1 # 1
    <3>0. n + 2 > 3 BY <1>2
    <3>1. 3 * q + 3 > n + 2 BY <2>6
    <3>1a. 3 * q > 0 BY <3>0, <3>1, <2>6a
    <3>2. q >= 1 BY <3>1a, <2>6a
    <3> QED BY <3>2, <2>6
  <2>10. q + 1 <= n
    <3>1. CASE n = 2
      <4>1. 3 * q <= 4 BY <3>1, <2>6
      <4>2. q <= 1 BY <4>1, <2>6
      <4> QED BY <4>2, <3>1, <2>6
    <3>2. CASE n >= 3
      <4>1. 3 * q <= 3 * n - 3 BY <3>2, <2>6
      <4>2. q <= n - 1 BY <4>1, <2>6
      <4> QED BY <4>2, <2>6
    <3> QED BY <1>2, <3>1, <3>2
  <2>11. q + 1 > r BY <2>6
  <2> QED BY <1>2, <2>7, <2>8, <2>9, <2>10, <2>11
<1> QED BY <1>1, <1>2

THEOREM Intersection ==
    \A n \in Nat : n >= 1 => 3 * (2 * SuperMajority(n) - n) > n
  BY DivFacts DEF SuperMajority

THEOREM HonestMajority ==
    \A n \in Nat : n >= 1 => SuperMajority(n) - FMax(n) > FMax(n)
  BY DivFacts DEF SuperMajority, FMax
=============================================================================
