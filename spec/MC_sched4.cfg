SPECIFICATION SSpec
CONSTANTS
  Creators = {1,2,3,4}
  Nodes = {1,2,3,4}
  Genesis <- SGen4
  Limits = {1, 3, 100}
  MaxEvents = 120
  MaxTx = 14
  MaxMsgs = 3
  Silent = {}
  NoEv <- SNoEv
  RootDepth = 10
  ActivationDelay = 6
  CoinFreq = 4
  CheckIndex = TRUE
  TxEvery = 6
  StopAt = 114
INVARIANTS C01_Agreement C02_Consecutive C02_StoreKeepsDelivered C04_Causal C04_AncestorsFirst C05_Integrity C05_NeverDropped C07_Chains FameUnambiguous C03_SameValues C03_SameFame C09_AnchorTrusted DumpSchedule
CHECK_DEADLOCK FALSE
