SPECIFICATION Spec
CONSTANTS
  Universe = {1,2,3,4}
  Self = 1
INVARIANTS NeverSelf OnlyCurrentPeers
PROPERTIES NotTwiceInARow NilOnlyWhenAlone
CHECK_DEADLOCK FALSE
