------------------------------ MODULE NodeGate ------------------------------
(***************************************************************************)
(* The operators of Node.tla that speak about one request or one           *)
(* heartbeat (no variables): used by Node.tla's state machine and, on      *)
(* every recorded request / heartbeat of real nodes, by Trace.tla.         *)
(***************************************************************************)
EXTENDS Integers


States == { "Babbling", "CatchingUp", "Joining", "Suspended", "Shutdown" }
Requests == { "SyncRequest", "EagerSyncRequest", "FastForwardRequest", "JoinRequest" }

\* processRPC: is the request handed to its handler?
Gate(state, req) == state = "Babbling" \/ (state = "Suspended" /\ req = "SyncRequest")

\* requests whose handler changes the node (DAG, pools): a pushed diff, a join
Mutating(req) == req \in { "EagerSyncRequest", "JoinRequest" }

\* checkSuspend
TooMany(undet, initial, limit, nvals) == undet - initial > limit * nvals
Evicted(hasLcr, lcr, removedRound, acceptedRound) ==
    hasLcr /\ removedRound > 0 /\ removedRound > acceptedRound /\ lcr >= removedRound
MustSuspend(undet, initial, limit, nvals, hasLcr, lcr, removedRound, acceptedRound) ==
    TooMany(undet, initial, limit, nvals) \/ Evicted(hasLcr, lcr, removedRound, acceptedRound)

=============================================================================
