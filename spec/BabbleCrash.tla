---------------------------- MODULE BabbleCrash ----------------------------
(***************************************************************************)
(* Babble.tla with crashes (C11 at design level).                          *)
(*                                                                         *)
(* What a node keeps across a kill is its database: every event whose      *)
(* insertion completed, in insertion order (h.ins).  Crash(n) kills the    *)
(* node between two steps and restarts it with bootstrap in one action:    *)
(* a fresh hashgraph, the events of the database replayed through the      *)
(* normal insertion and consensus path (Core.tla BootNode), head and       *)
(* sequence number from the last own event; pools, heads bookkeeping and   *)
(* responses in flight to the dead process are lost.  (Kills inside a      *)
(* step - between two database writes - are the subject of StoreMC.tla     *)
(* and of the crash images of persist mode.)                               *)
(***************************************************************************)
EXTENDS Babble

CONSTANT MaxCrashes

VARIABLES crashes,      \* number of crashes so far
          before        \* ghost: what each node had delivered when it was last killed

cvars == << vars, crashes, before >>

CInit == Init /\ crashes = 0 /\ before = [ n \in Nodes |-> << >> ]

Crash(n) ==
    /\ crashes < MaxCrashes
    /\ n \notin Silent
    /\ nodes' = [ nodes EXCEPT ![n] = BootNode(D, Genesis, n, nodes[n].h.ins) ]
    /\ before' = [ before EXCEPT ![n] = Out(n) ]
    /\ msgs' = { m \in msgs : m.to # n }
    /\ crashes' = crashes + 1
    /\ UNCHANGED << D, submitted >>

CNext ==
    \/ Next /\ UNCHANGED << crashes, before >>
    \/ \E n \in Nodes : Crash(n)

CSpec == CInit /\ [][CNext]_cvars

Bodies(s) == [ i \in 1..Len(s) |-> Body(s[i]) ]

\* the blocks delivered again after the restart are, index by index, the blocks
\* delivered before the kill (every completed insertion is durable, so none is missing)
C11_Redelivery == \A n \in Nodes : IsPrefixOf(Bodies(before[n]), Bodies(Out(n)))

\* the node knows exactly the events it had inserted; its head is its latest event ever
C11_HeadRestored ==
    \A n \in Nodes \ Silent :
        LET own == { e \in DOMAIN D : D[e].c = n } IN
        /\ nodes[n].seq = MaxOfSet({ D[e].i : e \in own }, -1)
        /\ own # {} => (nodes[n].head \in own /\ D[nodes[n].head].i = nodes[n].seq)
        /\ own \subseteq DOMAIN nodes[n].h.E

\* delivered blocks are never taken back, restarts included
C11_AppendOnly == [][ \A n \in Nodes : IsPrefixOf(Bodies(Out(n)), Bodies(Out(n)')) ]_cvars

CView == << D, nodes, msgs, crashes >>
CNoEv == << 0, -1 >>
CGen1 == << 1 >>
CGen2 == << 1, 2 >>
CGen3 == << 1, 2, 3 >>
=============================================================================
