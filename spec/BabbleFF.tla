------------------------------ MODULE BabbleFF ------------------------------
(***************************************************************************)
(* Babble.tla with fast-forward (C13 at design level, static validator     *)
(* set).  FastForward(n, m): node n, which is behind, resets itself from   *)
(* node m's anchor block and the frame of its round (Hashgraph.tla Reset:  *)
(* everything volatile cleared, roots and frame events inserted with the   *)
(* shipped round / witness / Lamport values, lower bound = anchor round),  *)
(* then keeps gossiping.  The anchor needs signatures of more than a third *)
(* of the validators, so that it only exists once blocks have been signed  *)
(* and the signatures gossiped: the model is simulated (N = 3), not        *)
(* enumerated.  A node only resets if that makes it forget none of its own *)
(* events (babble fast-forwards nodes that are behind; a node that forgot  *)
(* own events would re-use their heights).                                 *)
(***************************************************************************)
EXTENDS Babble

CONSTANTS MaxFF, TxEvery,
          Laggard       \* a validator that receives nothing until it has fast-forwarded (0: none)

VARIABLES ffs,      \* number of fast-forwards so far
          basev     \* per node: anchor index and number of blocks delivered at its last reset

fvars == << vars, ffs, basev >>

FInit == Init /\ ffs = 0 /\ basev = [ n \in Nodes |-> [ idx |-> -1, pos |-> 0 ] ]

FFOutcomeOf(n, m) ==
    LET hm  == nodes[m].h
        blk == hm.blocks[hm.anchor]
        fr0 == hm.frames[blk.rr]
        \* the frame as it travels: every root and frame event with the round, witness flag
        \* and Lamport timestamp the serving node computed
        ids == UNION { Range(fr0.roots[p]) : p \in DOMAIN fr0.roots } \cup Range(fr0.evs)
        fr  == [ info |-> Strict([ e \in ids |-> [ rnd |-> hm.E[e].rnd, wit |-> hm.E[e].wit, lt |-> hm.E[e].lt ] ]) ] @@ fr0
        h1  == Reset(D, nodes[n].h, blk, fr)
        hd  == IF n \in Repertoire(h1) THEN LastFrom(h1, n) ELSE NoEv
    IN  [ nd |-> [ nodes[n] EXCEPT !.h = h1, !.head = hd, !.seq = IF hd = NoEv THEN -1 ELSE D[hd].i,
                                   !.heads = EmptyFun ],
          idx |-> blk.idx ]

FastForward(n, m) ==
    /\ ffs < MaxFF
    /\ n # m /\ n \notin Silent /\ m \notin Silent
    /\ nodes[m].h.anchor # -1
    /\ nodes[m].h.blocks[nodes[m].h.anchor].rr \in DOMAIN nodes[m].h.frames
    /\ nodes[n].h.lastBlock < nodes[m].h.anchor
    /\ \E R \in { FFOutcomeOf(n, m) } :
          /\ R.nd.seq = nodes[n].seq          \* no own event is forgotten
          /\ nodes' = [ nodes EXCEPT ![n] = R.nd ]
          /\ basev' = [ basev EXCEPT ![n] = [ idx |-> R.idx, pos |-> Len(Out(n)) ] ]
    /\ ffs' = ffs + 1
    /\ msgs' = { x \in msgs : x.to # n }
    /\ UNCHANGED << D, submitted >>

FNext ==
    \/ /\ UNCHANGED << ffs, basev >>
       /\ \/ \E n \in Nodes : Cardinality(DOMAIN D) >= TxEvery * Cardinality(DOMAIN submitted) /\ Submit(n)
          \/ \E x, y \in Nodes, l \in Limits : (y # Laggard \/ basev[y].idx # -1) /\ Send(x, y, l)
          \/ \E m \in msgs : (m.to # Laggard \/ basev[m.to].idx # -1) /\ Deliver(m)
          \/ \E m \in msgs : Drop(m)
    \/ \E n, m \in Nodes : FastForward(n, m)

FSpec == FInit /\ [][FNext]_fvars

\* C13: blocks with the same index are identical on all nodes, fast-forwarded or not
C13_SameChain ==
    \A a, b \in Nodes : \A i \in 1..Len(Out(a)) : \A j \in 1..Len(Out(b)) :
        Out(a)[i].idx = Out(b)[j].idx => Body(Out(a)[i]) = Body(Out(b)[j])

\* delivery continues right after the anchor, one index at a time
C13_ContinuesAfterAnchor ==
    \A n \in Nodes : \A i \in 1..Len(Out(n)) :
        IF i > basev[n].pos
        THEN Out(n)[i].idx = basev[n].idx + (i - basev[n].pos)
        ELSE i > 1 => Out(n)[i].idx > Out(n)[i-1].idx

\* frames computed independently for the same round are identical (any node can serve any other)
C13_FramesIdentical ==
    \A a, b \in Nodes : \A r \in DOMAIN nodes[a].h.frames \cap DOMAIN nodes[b].h.frames :
        LET fa == nodes[a].h.frames[r]
            fb == nodes[b].h.frames[r]
        IN  fa.evs = fb.evs /\ fa.roots = fb.roots /\ fa.peers = fb.peers

FNoEv == << 0, -1 >>
FGen3 == << 1, 2, 3 >>
FGen2 == << 1, 2 >>
FGen4 == << 1, 2, 3, 4 >>
SomeFF == ffs = 0      \* (vacuity probe: violated when a fast-forward happens)
=============================================================================
