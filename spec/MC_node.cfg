SPECIFICATION Spec
CONSTANTS
  MaxHist = 3
  MaxUndet = 2
INVARIANT TypeOK
PROPERTIES C17_Frozen C17_SuspendedServesSync C17_Final
CHECK_DEADLOCK FALSE
