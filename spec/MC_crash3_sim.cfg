SPECIFICATION CSpec
CONSTANTS
  Creators = {1,2,3}
  Nodes = {1,2,3}
  Genesis <- CGen3
  Limits = {1, 3, 100}
  MaxEvents = 60
  MaxTx = 6
  MaxMsgs = 2
  Silent = {}
  NoEv <- CNoEv
  RootDepth = 2
  ActivationDelay = 2
  CoinFreq = 4
  CheckIndex = TRUE
  MaxCrashes = 4
INVARIANTS C01_Agreement C02_Consecutive C02_StoreKeepsDelivered C04_Causal C05_Integrity C07_Chains C09_AnchorTrusted C11_Redelivery C11_HeadRestored
CHECK_DEADLOCK FALSE
