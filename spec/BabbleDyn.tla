----------------------------- MODULE BabbleDyn -----------------------------
(***************************************************************************)
(* Babble.tla with dynamic membership: join and leave requests enter a     *)
(* validator's internal-transaction pool (processJoinRequest / core.leave),*)
(* travel in events, are committed in a block with the application's       *)
(* answer, and change the validator set ActivationDelay rounds later       *)
(* (hashgraph.go: round-received + 6).  A joiner runs a core from the      *)
(* genesis set, receives the whole history by ordinary syncs and may       *)
(* create events from its accepted round on.                               *)
(*                                                                         *)
(* Exhaustive checking needs a small ActivationDelay (1, 2): the blocks    *)
(* before, inside and after the activation window are then within reach of *)
(* 8-10 events with a single founder.  This is a statement about the       *)
(* design with that delay; the code's delay of 6 is exercised by trace      *)
(* validation (dyn mode).                                                  *)
(***************************************************************************)
EXTENDS Babble

CONSTANTS Joiners,      \* nodes that are not in Genesis and may ask to join
          Leavers,      \* genesis validators that may ask to leave
          Refused       \* peers whose requests the application refuses

Itx(typ, peer, k) == [ id |-> << typ, peer, k >>, typ |-> typ, peer |-> peer,
                       ok |-> peer \notin Refused, sig |-> TRUE ]

Requested(typ, peer) ==
    \/ \E n \in Nodes : \E k \in DOMAIN nodes[n].itxpool :
          nodes[n].itxpool[k].typ = typ /\ nodes[n].itxpool[k].peer = peer
    \/ \E e \in DOMAIN D : \E k \in DOMAIN D[e].itxs :
          D[e].itxs[k].typ = typ /\ D[e].itxs[k].peer = peer

\* processJoinRequest at validator v for joiner j
RequestJoin(v, j) ==
    /\ j \in Joiners /\ v \notin Silent /\ v # j
    /\ v \in Range(nodes[v].h.validators)
    /\ ~Requested("add", j)
    /\ nodes' = [ nodes EXCEPT ![v].itxpool = Append(@, Itx("add", j, 0)) ]
    /\ UNCHANGED << D, msgs, submitted >>

\* core.leave at validator v
RequestLeave(v) ==
    /\ v \in Leavers /\ v \notin Silent
    /\ v \in Range(nodes[v].h.validators)
    /\ Cardinality(Range(nodes[v].h.validators)) > 1
    /\ ~Requested("rem", v)
    /\ nodes' = [ nodes EXCEPT ![v].itxpool = Append(@, Itx("rem", v, 0)) ]
    /\ UNCHANGED << D, msgs, submitted >>

\* the join promise is answered: the joiner learns the round from which it
\* is a validator (the holder's effective round for the set containing it)
JoinAnswered(j) ==
    /\ j \in Joiners
    /\ nodes[j].acceptedRound = -1
    /\ \E v \in Nodes \ {j} : \E r \in DOMAIN nodes[v].h.ps :
          /\ j \in Range(nodes[v].h.ps[r])
          /\ nodes' = [ nodes EXCEPT ![j].acceptedRound = r ]
    /\ UNCHANGED << D, msgs, submitted >>

\* A node outside the validator set is in the Joining state until its request
\* is answered: it neither gossips nor serves (node_rpc.go state gate), takes no
\* transactions and does not monologue.
\* A validator that reached its removal round suspends itself (node.checkSuspend).
Removed(n) == nodes[n].h.removedRound # -1 /\ nodes[n].h.lcr >= nodes[n].h.removedRound
Active(n) == (n \notin Joiners \/ nodes[n].acceptedRound # -1) /\ ~Removed(n)

NextDyn ==
    \/ \E n \in Nodes : Active(n) /\ Submit(n)
    \/ \E x, y \in Nodes, l \in Limits : Active(x) /\ Active(y) /\ Send(x, y, l)
    \/ \E m \in msgs : Deliver(m)
    \/ \E m \in msgs : Drop(m)
    \/ \E n \in Nodes : Active(n) /\ n \in Range(nodes[n].h.validators) /\ Monologue(n)
    \/ \E v \in Nodes, j \in Joiners : RequestJoin(v, j)
    \/ \E v \in Nodes : RequestLeave(v)
    \/ \E j \in Joiners : JoinAnswered(j)

SpecDyn == Init /\ [][NextDyn]_vars

-----------------------------------------------------------------------------
(* C10 at design level                                                     *)

\* the validator-set table of every node is the replay of its delivered blocks
ReplayTable(out, k, tb, vals) ==
    LET RECURSIVE go(_, _, _)
        go(i, t, v) ==
            IF i > Len(out) THEN t
            ELSE LET b == out[i]
                     v1 == ApplyReceipts(v, b.itxs)
                     changed == \E q \in DOMAIN b.itxs : b.itxs[q].ok
                 IN  IF changed /\ (b.rr + ActivationDelay) \notin DOMAIN t
                     THEN go(i + 1, Ext(t, b.rr + ActivationDelay, v1), v1)
                     ELSE go(i + 1, t, v)
    IN  go(k, tb, vals)

C10_HistoryIsReplay ==
    \A n \in Nodes : ~nodes[n].h.psErr =>
        nodes[n].h.ps = ReplayTable(Out(n), 1, (0 :> Genesis), Genesis)

\* two nodes never hold different sets for one round
C10_SameAcrossNodes ==
    \A a, b \in Nodes : \A r \in DOMAIN nodes[a].h.ps \cap DOMAIN nodes[b].h.ps :
        nodes[a].h.ps[r] = nodes[b].h.ps[r]

\* the set of a round that already has a delivered block never changes
C10_NoRetroactive ==
    [][ \A n \in Nodes : \A r \in DOMAIN nodes[n].h.ps :
            r \in DOMAIN nodes[n].h.ps' /\ nodes[n].h.ps'[r] = nodes[n].h.ps[r] ]_vars

\* the set of a round is learned before the node reaches that round (holds only
\* while fame is decided in fewer rounds than ActivationDelay: with delays of
\* 1..3 TLC finds behaviours in which it fails and, a few steps later, two nodes
\* disagree on whether an event of the removed validator is a witness
\* (MC_dynL.cfg, expected violation))
C10_SetKnownBeforeRoundStarts ==
    [][ \A n \in Nodes : \A r \in (DOMAIN nodes[n].h.ps') \ (DOMAIN nodes[n].h.ps) : r > nodes[n].h.lastRound ]_vars

\* a block is signed and counted only by members of its round's set
C10_BlockPeers ==
    \A n \in Nodes : \A i \in 1..Len(Out(n)) :
        Out(n)[i].peers = PSAt(nodes[n].h, Out(n)[i].rr)

\* events of a creator are only created while (from when) it is a validator
C10_MembersOnly ==
    \A e \in DOMAIN D : D[e].c \in Joiners =>
        \E n \in Nodes : \E r \in DOMAIN nodes[n].h.ps : D[e].c \in Range(nodes[n].h.ps[r])
=============================================================================
