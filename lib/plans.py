"""Per-property verification plans."""
import os, json, shutil, random
import vlib
from vlib import Infra, log

Q = lambda w: w.tier == "quick"

ASSUME_COMMON = [
    "all nodes are configured with the same genesis peer list in the same order",
    "the application is deterministic (harness VApp: state hash = running SHA-256 of committed transactions)",
    "gossip runs over the harness scheduler (single-threaded interleaving of the lock-delimited sections of node.go/core.go), not over wall-clock timers",
    "TLC exhaustiveness only within the constants of the MC_* cfg named in coverage.model_checking",
]


# ------------------------------------------------------------------ helpers

def run_mc(w, cfgs, module="MC_hg.tla"):
    for name, cfg, workers, timeout in cfgs:
        r = w.model_check(name, cfg, module=module, workers=workers, timeout=timeout)
        if r.get("violated"):
            # a design-level counterexample is reported, but is not a verdict on the code
            w.notes.append("spec-level: %s violated in %s (model only; not a verdict)" % (r["violated"], cfg))
        log("  mc %-10s %s distinct=%s generated=%s depth=%s %.0fs%s" % (
            name, cfg, r.get("distinct"), r.get("generated"), r.get("depth"), r["wall_s"],
            " TIMEOUT(bounded, incomplete)" if r.get("timeout") else ""))


def run_sim(w, name, cfg, num, depth, module="MC_hg.tla", workers=8, timeout=600):
    r = w.model_check(name, cfg, module=module, workers=workers, timeout=timeout,
                      extra=("-simulate", "num=%d" % num, "-depth", str(depth), "-seed", str(w.seed)))
    log("  sim %-10s %s generated=%s %.0fs" % (name, cfg, r.get("generated"), r["wall_s"]))
    return r


def sched_traces(w, q):
    """specification -> implementation: TLC simulates Babble.tla (MC_sched.tla: N = 3, 4,
    up to three responses in flight, every design invariant evaluated in every state) and
    prints each behaviour as a schedule; the driver steps real cores through it, the trace
    is validated like any other and the specification's own prediction of the acting
    node's state is compared after every step (Conf_Sched_Pred)"""
    import re as _re
    runs = [("sched3", "MC_sched3.cfg", 10, 1, 260)] if q else \
           [("sched3", "MC_sched3.cfg", 14, 3, 260), ("sched4", "MC_sched4.cfg", 14, 2, 340)]
    path = os.path.join(w.dir, "schedules.ndjson")
    n = 0
    with open(path, "w") as g:
        for name, cfg, workers, num, depth in runs:
            out, rc, dt = w.tlc("mc_" + name, "MC_sched.tla", cfg, workers=workers, timeout=1500, heap="12g",
                                extra=("-simulate", "num=%d" % num, "-depth", str(depth), "-seed", str(w.seed + 100)))
            res = vlib.parse_mc(out)
            k = 0
            for line in out.splitlines():
                m = _re.match(r'<<"@@SCHED", (".*")>>$', line)
                if m:
                    g.write(json.loads(m.group(1)) + "\n")
                    k += 1
            mg = _re.search(r"The number of states generated: (\d+)", out)
            res.update(name=name, cfg=cfg, wall_s=round(dt, 1), rc=rc, simulation=True, behaviours_exported=k,
                       generated=int(mg.group(1)) if mg else None)
            if res.get("violated"):
                w.notes.append("spec-level: %s violated in simulation of %s (model only; not a verdict)" % (res["violated"], cfg))
            elif res.get("error"):
                raise Infra("TLC failed on %s: %s" % (cfg, res["error"][:1500]))
            w.mc.append(res)
            log("  sim %-10s %s states=%s behaviours exported as schedules=%d %.0fs" % (name, cfg, res.get("generated"), k, dt))
            n += k
    if n == 0:
        raise Infra("TLC exported no schedule (MC_sched)")
    tr, sm = w.drive("sched", "sched", ["-seed", w.seed, "-traces", 0, "-arg", path, "-full", 3])
    log("  driver %-12s traces=%d lines=%d events=%d blocks=%d errors=%d %s" % (
        "sched", sm["traces"], sm["lines"], sm["events"], sm["blocks"], sm["errors"],
        {k: v for k, v in sm.get("extra", {}).items() if k != "wall_s"}))
    if sm.get("extra", {}).get("responses_delivered", 0) < 20:
        raise Infra("vacuous run: TLC schedules delivered nothing (%s)" % sm.get("extra"))
    return [tr], [sm]


def gossip_specs(w, kinds):
    """driver invocations for gossip traces; kinds: list of (name, dict of args)"""
    res = []
    for name, a in kinds:
        args = ["-seed", w.seed * 7919 + len(res)]
        for k, v in a.items():
            args += ["-" + k, v]
        res.append((name, args))
    return res


def drive_all(w, specs, mode="gossip"):
    traces, sums = [], []
    for name, args in specs:
        tr, sm = w.drive(mode, name, args)
        traces.append(tr)
        sums.append(sm)
        log("  driver %-12s traces=%d lines=%d events=%d blocks=%d errors=%d" % (
            name, sm["traces"], sm["lines"], sm["events"], sm["blocks"], sm["errors"]))
    return traces, sums


def judge(w, pid, tvs, known, also=()):
    violations, known_hits, drift = [], [], []
    for r in tvs:
        mine = [v for v in r["viol"] if v.get("p") == pid or v.get("p") in also]
        for v in mine:
            k = vlib.match_known(pid, v, known)
            if k:
                known_hits.append("%s (%s)" % (k["what"], v.get("inv")))
            else:
                rp = vlib.keep_replay(w, r["trace"], "%s_t%s_l%s" % (v.get("inv"), v.get("t"), v.get("l")))
                violations.append({"replay": rp, "what": "%s at trace %s line %s" % (v.get("inv"), v.get("t"), v.get("l")), "rec": v})
                break  # one replay per trace file is enough
        if r["drift"]:
            first = min((d.get("l", 0) for d in r["drift"]), default=0)
            # (kept for diagnosis; a drift is not a verdict)
            kept = vlib.keep_replay(w, r["trace"], "DRIFT_l%s" % first)
            drift.append({"trace": os.path.basename(r["trace"]), "checks": sorted({d.get("inv") for d in r["drift"]}),
                          "first": first, "kept": kept})
    return violations, sorted(set(known_hits)), drift


def selftest(w, pid, trace, fn, what):
    """binding demonstration: corrupt one recorded field of a good trace; TLC
    must flag the copy (for this property, or as drift)"""
    dst = os.path.join(w.dir, "selftest_%s.ndjson" % pid)
    # the given segment first; if it holds nothing the corruption applies to, any
    # other trace validated in this run
    for cand in [trace] + [r["trace"] for r in w.tv if r.get("trace") != trace]:
        if hasattr(fn, "node"):
            fn.node = None
        if vlib.corrupt_trace(cand, dst, fn):
            break
    else:
        raise Infra("selftest: nothing to corrupt in any trace of this run (%s)" % what)
    r = w.validate(dst, name="selftest_" + pid)
    w.tv.pop()  # not part of the evidence counts
    hit = [v for v in r["viol"] if v.get("p") == pid] or r["drift"]
    if not hit:
        raise Infra("selftest failed: corrupted trace (%s) was accepted" % what)
    return {"corruption": what, "flagged_as": sorted({v.get("inv") for v in (r["viol"] + r["drift"])})[:6]}


def first_segment(trace, dst, max_lines=100000):
    """copy the first trace segment (up to the second Init line)"""
    n = 0
    with open(trace) as f, open(dst, "w") as g:
        for line in f:
            if '"a":"Init"' in line and n > 0:
                break
            g.write(line)
            n += 1
            if n >= max_lines:
                break
    return dst


def coverage(w, sums, extra=None, samples=None):
    st = sum(r.get("distinct", 0) for r in w.mc) + sum(r.get("distinct", 0) for r in w.tv)
    tr = sum(r.get("generated", 0) for r in w.mc) + sum(r.get("states_generated", 0) for r in w.tv)
    ntr = sum(r.get("stats", {}).get("traces", 0) for r in w.tv)
    smp = list(samples or [])
    for s in sums:
        smp += s.get("samples", [])[:2]
    cov = {
        "states": st, "transitions": tr, "traces_validated_against_impl": ntr,
        "samples": smp[:8] or ["(no samples)"],
        "model_checking": [{k: r.get(k) for k in ("name", "cfg", "distinct", "generated", "depth", "complete", "timeout", "wall_s", "violated")} for r in w.mc],
        "trace_validation": {
            "files": len(w.tv),
            "lines": sum(r.get("stats", {}).get("lines", 0) for r in w.tv),
            "sync_steps": sum(r.get("stats", {}).get("syncs", 0) for r in w.tv),
            "event_insertions_reexecuted": sum(r.get("stats", {}).get("inserts", 0) for r in w.tv),
            "blocks_delivered": sum(r.get("stats", {}).get("blocks", 0) for r in w.tv),
        },
        "driver": [{k: s.get(k) for k in ("mode", "traces", "steps", "events", "blocks", "errors")} for s in sums],
        "notes": w.notes,
        "exhaustive": False,
    }
    if extra:
        cov.update(extra)
    return cov


def conclude(w, pid, sums, violations, known_hits, drift, extra=None, samples=None, assumptions=None, min_blocks=1):
    cov = coverage(w, sums, extra, samples)
    cov["drift"] = drift
    for d in drift:
        log("DRIFT: %s: specification/implementation mismatch %s (first at line %s) - not a verdict" % (d["trace"], d["checks"], d["first"]))
    if min_blocks and cov["trace_validation"]["blocks_delivered"] < min_blocks and not violations:
        raise Infra("vacuous run: no block was delivered in any validated trace")
    return vlib.finish(w, pid, cov, (assumptions or []) + ASSUME_COMMON, violations, known_hits)


def replay(w, pid, path):
    path = os.path.abspath(path)
    r = w.validate(path, name="replay")
    known = vlib.load_known()
    violations, known_hits, drift = judge(w, pid, [r], known)
    if pid == "C13":
        known_via = [dict(k, property="C01") for k in known if k.get("property") == "C13" and k.get("via") == "C01"]
        v2, k2, _ = judge(w, "C01", [r], known_via)
        for v in v2:
            v["what"] = "C13 via " + v["what"]
        violations += v2
        known_hits = sorted(set(known_hits + k2))
    for v in violations:
        v["replay"] = path
    for d in drift:
        log("DRIFT: %s %s" % (d["trace"], d["checks"]))
    for k in known_hits:
        log("KNOWN-FINDING: property=%s %s" % (pid, k))
    for v in violations:
        log("VIOLATION property=%s replay=%s   (%s)" % (pid, path, v["what"]))
    return 1 if violations else 0


# ------------------------------------------------------------------ gossip family

def gossip_family(w, pid, corrupt, corrupt_what, extra_kinds=(), mc=None, assumptions=None):
    q = Q(w)
    known = vlib.load_known()
    mc = mc or ([("hg1", "MC_hg1.cfg", 4, 300), ("hg2q", "MC_hg2q.cfg", 8, 600)] if q else
                [("hg1", "MC_hg1.cfg", 4, 300), ("hg2t", "MC_hg2t.cfg", 14, 1500), ("hg3q", "MC_hg3q.cfg", 14, 1500)])
    run_mc(w, mc)
    if q:
        kinds = [("mixA", dict(traces=6, n=0, steps=110, sched="mix")),
                 ("mixB", dict(traces=4, n=4, steps=160, sched="mix")),
                 ("flt", dict(traces=8, n=0, steps=220, sched="faults-mix")),
                 ("flu", dict(traces=8, n=0, steps=220, sched="faults-mix")),
                 ("bdgr", dict(traces=2, n=3, steps=120, sched="random", store="badger", cache=200))]
    else:
        kinds = [("mix%d" % i, dict(traces=10, n=0, steps=220, sched="mix")) for i in range(6)] + \
                [("n4_%d" % i, dict(traces=6, n=4, steps=320, sched="mix")) for i in range(3)] + \
                [("n7", dict(traces=4, n=7, steps=400, sched="mix")),
                 ("n5", dict(traces=6, n=5, steps=300, sched="mix")),
                 ("bdgr", dict(traces=6, n=4, steps=250, sched="mix", store="badger", cache=300)),
                 ("bdgs", dict(traces=4, n=3, steps=250, sched="random", store="badger", cache=150))] + \
                [("flt%d" % i, dict(traces=10, n=0, steps=260, sched="faults-mix")) for i in range(4)] + \
                [("fltb", dict(traces=6, n=4, steps=260, sched="faults-mix", store="badger", cache=300))]
    # the application's reply to a commit is lost (the call fails after the application
    # processed the block): the node keeps the block unsigned and must go on as before
    kinds += [("rl", dict(traces=6 if q else 18, n=0, steps=220 if q else 300, sched="rl-mix", txp=0.4))]
    kinds += list(extra_kinds)
    traces, sums = drive_all(w, gossip_specs(w, kinds))
    # recorded DAGs re-fed to bare hashgraph instances with transient store write
    # failures in the commit path (frame-write outage that piles up decided
    # rounds, then one more failure while several rounds are processed in one pass)
    # real cores mixed with crafted validators whose clocks are skewed or lie
    lk = [("liar", dict(traces=8, n=0, steps=260)), ("liar5", dict(traces=4, n=5, steps=300))] if q else [("liar%d" % i, dict(traces=8, n=0, steps=350)) for i in range(3)]
    t6, s6 = drive_all(w, gossip_specs(w, lk), mode="liars")
    traces, sums = traces + t6, sums + s6
    okinds = [("ordf", dict(traces=4, n=0, steps=90))] if q else \
             [("ordf%d" % i, dict(traces=6, n=0, steps=150, arg="thorough")) for i in range(3)]
    t3, s3 = drive_all(w, gossip_specs(w, okinds), mode="orders")
    traces, sums = traces + t3, sums + s3
    # TLC-generated behaviours of Babble.tla replayed into real cores (stale / lost responses)
    ts, ss = sched_traces(w, q)
    traces, sums = traces + ts, sums + ss
    if pid in ("C01", "C02"):
        # across validator-set changes: real Nodes with joins, leaves and API reads
        td, sd = drive_all(w, gossip_specs(w, [("dynA", dict(traces=2 if q else 6, n=0, steps=330 if q else 500)),
                                               ("dynG", dict(traces=1 if q else 3, n=3, steps=330 if q else 450, arg="growth"))]), mode="dyn")
        traces, sums = traces + td, sums + sd
        # fast-sync: fresh nodes and nodes with history (resets behind their own tip)
        t7, s7 = drive_all(w, gossip_specs(w, [("ffx", dict(traces=4 if q else 10, n=0, steps=240 if q else 400)),
                                               # a node with history (and a database that already holds blocks) resets
                                               ("ffxBd", dict(traces=2 if q else 4, n=4, steps=260, store="badger", cache=400))]), mode="ff")
        traces, sums = traces + t7, sums + s7
    tvs = w.validate_many(traces, par=6 if q else 8)
    violations, known_hits, drift = judge(w, pid, tvs, known)
    escalated = None
    if drift and not violations:
        # The implementation no longer computes what the specification computes
        # (Conf_* mismatch).  That alone is not a verdict: search harder, with the
        # schedulers under which views differ most (late arrivals, healing
        # partitions, silent minorities) and skewed clocks, for a real violation.
        log("  drift without violation: escalating (more adversarial schedules)")
        ek = [("escL%d" % i, dict(traces=8, n=3 + i % 3, steps=260, sched="laggard")) for i in range(3)] + \
             [("escP%d" % i, dict(traces=8, n=4 + i % 3, steps=260, sched="partition")) for i in range(3)] + \
             [("escS", dict(traces=8, n=4, steps=260, sched="silent")), ("escM", dict(traces=12, n=0, steps=300, sched="mix"))]
        t4, s4 = drive_all(w, gossip_specs(w, ek))
        t5, s5 = drive_all(w, gossip_specs(w, [("escLi", dict(traces=8, n=0, steps=300))]), mode="liars")
        tv2 = w.validate_many(t4 + t5, par=8)
        v2, k2, d2 = judge(w, pid, tv2, known)
        sums += s4 + s5
        violations, known_hits, drift = v2, sorted(set(known_hits + k2)), drift + d2
        escalated = {"extra_traces": sum(s["traces"] for s in s4 + s5), "violations_found": len(v2)}
    st = None
    if not violations:
        seg = first_segment(traces[1], os.path.join(w.dir, "seg.ndjson"))
        st = selftest(w, pid, seg, corrupt, corrupt_what)
    return conclude(w, pid, sums, violations, known_hits, drift, extra={"selftest": st, "escalation": escalated}, assumptions=assumptions)


def _first_block_line(d, node_pred=lambda n: True):
    return d.get("a") == "Sync" and d["o"].get("blocks") and node_pred(d["n"])


def c01_corrupt(d):
    # a node reports a different body digest for a block another node also delivered
    if _first_block_line(d) and d["n"] != 1:
        d["o"]["blocks"][0]["dig"] = "deadbeefdeadbeef"
        return True
    if _first_block_line(d):
        c01_corrupt.seen = True
    return False


def c02_corrupt(d):
    # the store stops reporting the delivered body for block 0
    if d.get("a") == "Sync" and d["o"].get("store"):
        d["o"]["store"][0]["dig"] = "0000000000000000"
        return True
    return False


def c04_corrupt(d):
    # two events of a delivered block swap places
    if d.get("a") == "Sync":
        for b in d["o"].get("blocks", []):
            if len(b["evs"]) >= 2:
                b["evs"][0], b["evs"][-1] = b["evs"][-1], b["evs"][0]
                return True
    return False


def plan_C01(w):
    return gossip_family(w, "C01", c01_corrupt, "one node's delivered block digest altered")


def plan_C02(w):
    return gossip_family(w, "C02", c02_corrupt, "stored block 0 digest altered after delivery")


def c05_corrupt(d):
    # a delivered block carries a transaction nobody submitted
    if d.get("a") == "Sync":
        for b in d["o"].get("blocks", []):
            if b["txs"]:
                b["txs"][0] = "t-forged"
                return True
    return False


def plan_C05(w):
    q = Q(w)
    extra = [("lossyA", dict(traces=6 if q else 12, n=0, steps=180 if q else 300, sched="lossy-mix", txp=0.5)),
             ("lossyB", dict(traces=3 if q else 8, n=4, steps=200 if q else 350, sched="lossy-random", txp=0.6))]
    return gossip_family(w, "C05", c05_corrupt, "a transaction id in a delivered block replaced by one that was never submitted",
                         extra_kinds=extra,
                         assumptions=["injected faults: responses that lost an event in transit (the sync fails midway), sync-limit truncation, transient store write failures (first write of a new event, SetBlock, SetFrame, AddConsensusEvent); a node that suffered a store fault is no longer compared with the others (C01/C03) but its own delivery and pools still are",
                                      "the application's commit callback does not fail in these runs"])


def plan_C04(w):
    return gossip_family(w, "C04", c04_corrupt, "first and last event of a delivered block swapped")


def c03_corrupt(d):
    # an instance reports another round for one event
    if d.get("a") == "Instance" and not d["x"]["subset"] and d["x"]["batch"] == 1 and d["o"]["vals"] \
            and "faulty" not in d["x"] and not d["o"].get("partial") and not d["o"]["err"]:
        d["o"]["vals"][-1]["r"] += 1
        return True
    return False


def plan_C03(w):
    q = Q(w)
    known = vlib.load_known()
    run_mc(w, [("hg1", "MC_hg1.cfg", 4, 300), ("hg2q", "MC_hg2q.cfg", 8, 600)] if q else
              [("hg1", "MC_hg1.cfg", 4, 300), ("hg2t", "MC_hg2t.cfg", 14, 1500)])
    # the property itself at design level: every linearization of a node's event set
    # yields the same values and block bodies (C03_OrderIndependent)
    run_mc(w, [("hg2o", "MC_hg2o.cfg", 6, 600)] if q else [("hg2ot", "MC_hg2ot.cfg", 12, 1500)])
    # random pairwise-gossip DAGs, screened for a difference between per-event and
    # once-at-the-end insertion (cache = number of candidates per trace)
    rk = [("ordR", dict(traces=3, steps=75, sched="randdag", cache=200))] if q else \
         [("ordR%d" % i, dict(traces=6, steps=75 + 10 * i, sched="randdag", cache=500, arg="thorough")) for i in range(3)]
    if q:
        kinds = [("ordA", dict(traces=4, n=0, steps=70)), ("ordB", dict(traces=2, n=4, steps=110)), ("ordF", dict(traces=3, sched="funky"))]
    else:
        kinds = [("ord%d" % i, dict(traces=6, n=0, steps=160, arg="thorough")) for i in range(4)] + \
                [("ordN4a", dict(traces=2, n=4, steps=200, arg="thorough")), ("ordN4b", dict(traces=2, n=4, steps=200, arg="thorough")),
                 ("ordN7", dict(traces=1, n=7, steps=170, arg="thorough")),
                 ("ordF", dict(traces=12, sched="funky", arg="thorough"))]
    kinds += rk
    # (the drivers are single-threaded and the thorough variants re-feed every DAG many times: run them side by side)
    traces, sums = drive_par(w, gossip_specs(w, kinds), "orders", par=7 if not q else 4, timeout=6000)
    g = [("gsp", dict(traces=3 if q else 10, n=0, steps=100 if q else 220, sched="mix"))]
    t2, s2 = drive_all(w, gossip_specs(w, g))
    ts, ss = sched_traces(w, q)
    t2, s2 = t2 + ts, s2 + ss
    tvs = w.validate_many(traces + t2, par=6)
    violations, known_hits, drift = judge(w, "C03", tvs, known)
    st = None
    if not violations:
        st = selftest(w, "C03", first_segment(traces[0], os.path.join(w.dir, "seg.ndjson")), c03_corrupt,
                      "one instance's round of one event increased by one")
    inst = sum(s.get("extra", {}).get("instances", 0) for s in sums)
    uns = sum(s.get("extra", {}).get("unsupported_configurations", 0) for s in sums)
    extra = {"selftest": st, "instances_compared": inst, "unsupported_configurations_skipped": uns,
             "variants": "random topological orders, reverse-creator-major, one-creator-late; consensus passes batched every 2/7/25 inserts and once at the end; Badger with caches |DAG|+50, 2|DAG|, 5000 and 60; in-memory with cache |DAG|+10; downward-closed prefixes; reference re-executed by the TLA+ specification"}
    return conclude(w, "C03", sums + s2, violations, known_hits, drift, extra=extra,
                    assumptions=["an instance that returns an error at a small cache is an unsupported configuration, not a violation; only a differing result is",
                                 "fame tables are compared on the set of famous witnesses and on witnesses decided in both instances (a late witness may stay undecided in one order and be decided not-famous in another; no output depends on it)"])


def c06_corrupt(d):
    if d.get("a") == "LiveCheck":
        d["o"]["busy"][0] = True
        return True
    return False


def plan_C06(w):
    q = Q(w)
    known = vlib.load_known()
    run_mc(w, [("hg1", "MC_hg1.cfg", 4, 300)])
    r = w.model_check("hg1live", "MC_hg1_live.cfg", module="MC_hg.tla", workers=2, timeout=300)
    if not r.get("complete"):
        raise Infra("MC_hg1_live did not complete: %s" % r.get("raw_tail"))
    log("  mc hg1live   FairSpec (weak fairness of the node's own steps, strong fairness of delivery): C06_EventuallyIdle, C06_AllCommitted hold for N=1 (for N >= 2 the event bound of an exhaustive model cuts progress short: liveness is decided on traces)")
    rs = w.model_check("selector", "MC_selector.cfg", module="PeerSelector.tla", workers=2, timeout=300)
    if not rs.get("complete"):
        raise Infra("PeerSelector.tla did not complete: %s" % rs.get("raw_tail"))
    log("  mc selector  PeerSelector.tla (the source of the fair-gossip assumption): distinct=%s, NeverSelf / OnlyCurrentPeers / NotTwiceInARow hold" % rs.get("distinct"))
    kinds = [("liveA", dict(traces=14, n=0, steps=110, full=0)), ("liveB", dict(traces=6, n=4, steps=160, full=0))] if q else \
            [("live%d" % i, dict(traces=21, n=0, steps=220, full=0)) for i in range(4)] + \
            [("liveN7", dict(traces=6, n=7, steps=300, full=0)), ("liveBd", dict(traces=6, n=4, steps=200, full=0, store="badger", cache=400))]
    traces, sums = drive_all(w, gossip_specs(w, kinds), mode="live")
    tvs = w.validate_many(traces, par=6)
    violations, known_hits, drift = judge(w, "C06", tvs, known)
    st = None
    if not violations:
        # the last segment keeps the file small
        seg = first_segment(traces[0], os.path.join(w.dir, "seg.ndjson"))
        st = selftest(w, "C06", seg, c06_corrupt, "a live node reported busy after the fair phase")
    extra = {"selftest": st, "bound_cycles": 40,
             "max_cycles_to_idle_observed": max(s.get("extra", {}).get("max_cycles_to_idle", 0) for s in sums),
             "interpretation": "committed everywhere = every transaction accepted by a live node is in the delivered blocks of every live node, pools empty, no loaded event (payload or first event) pending, no node busy; trailing events without payload stay undetermined by design when the network goes idle"}
    return conclude(w, "C06", sums, violations, known_hits, drift, extra=extra,
                    assumptions=["no equivocation; cache sizes above the history (the statement excludes both)",
                                 "prefixes: random / laggard / partition / silent / ring schedulers, truncated syncs, responses that lost an event; then < n/3 validators silent; fair phase with or without truncation"])


def c07_corrupt(d):
    if d.get("a") == "Offer" and not d["x"]["admissible"] and not d["o"]["accepted"]:
        d["o"]["accepted"] = True
        return True
    return False


def plan_C07(w):
    q = Q(w)
    known = vlib.load_known()
    run_mc(w, [("hg1", "MC_hg1.cfg", 4, 300), ("hg2q", "MC_hg2q.cfg", 8, 600)])
    kinds = [("admA", dict(traces=4, n=0, steps=170, arg="all")), ("admB", dict(traces=3, n=4, steps=200))] if q else \
            [("adm%d" % i, dict(traces=6, n=0, steps=300, arg="all" if i % 2 == 0 else "")) for i in range(6)]
    # a target whose in-memory caches are smaller than the history, a creator that stays
    # silent until its last event has left the target's event cache, then tampered
    # indexes on top of it
    kinds += [("admQ", dict(traces=3 if q else 9, n=0, steps=500 if q else 800, sched="quiet", cache=12)),
              ("admR", dict(traces=2 if q else 6, n=4, steps=600 if q else 900, sched="quiet", cache=30))]
    traces, sums = drive_all(w, gossip_specs(w, kinds), mode="admit")
    g = [("gsp", dict(traces=3 if q else 10, n=0, steps=110 if q else 220, sched="mix"))]
    t2, s2 = drive_all(w, gossip_specs(w, g))
    tvs = w.validate_many(traces + t2, par=6)
    violations, known_hits, drift = judge(w, "C07", tvs, known)
    st = None
    if not violations:
        st = selftest(w, "C07", first_segment(traces[0], os.path.join(w.dir, "seg.ndjson")), c07_corrupt,
                      "a rejected inadmissible offer reported as accepted")
    tot = {k: sum(s.get("extra", {}).get(k, 0) for s in sums) for k in ("offers", "valid_accepted", "rejected", "tamperings")}
    if tot["valid_accepted"] < 3:
        raise Infra("vacuous run: valid events were not accepted (%s)" % tot)
    extra = {"selftest": st, "offers": tot,
             "tamperings": "signature flipped / by another validator / 10 malformed encodings; payload or timestamp changed without re-signing; index skipped, far, duplicate, zero, negative, minimal; self-parent older / older with matching index (equivocation) / empty / unknown / foreign event; other-parent unknown or garbage; foreign creator, other validator as creator; internal transactions not signed by the peer they concern; re-signed equivocation at the last height; each through InsertEvent (full event) and through the wire form"}
    return conclude(w, "C07", sums + s2, violations, known_hits, drift, extra=extra, min_blocks=0,
                    assumptions=["admission facts are computed by the driver with its own ECDSA/SHA-256 and its own record of the target's view"])


def c10_corrupt(d):
    # a node reports a validator-set entry that the blocks do not justify
    if d.get("a") == "Sync" and len(d["o"].get("ps", [])) >= 2:
        d["o"]["ps"][-1]["peers"] = d["o"]["ps"][-1]["peers"][:-1]
        return True
    return False


def dyn_kinds(w, q):
    if q:
        return [("dynA", dict(traces=3, n=0, steps=330)), ("dynB", dict(traces=2, n=4, steps=380)),
                ("dynG", dict(traces=2, n=3, steps=330, arg="growth")),
                ("dynH", dict(traces=2, n=3, steps=360, arg="growth", txp=0.01))]  # few blocks: block index far below its round
    return [("dyn%d" % i, dict(traces=4, n=0, steps=600)) for i in range(5)] + \
           [("dynN4", dict(traces=4, n=4, steps=700)), ("dynBd", dict(traces=2, n=3, steps=500, store="badger", cache=500)),
            ("dynG", dict(traces=6, n=3, steps=450, arg="growth")),
            ("dynH", dict(traces=6, n=3, steps=450, arg="growth", txp=0.01))]


def dyn_mc(w, q):
    """membership in the exhaustive model (BabbleDyn.tla; ActivationDelay 1): a join into a
    single-founder network, a leave from a two-validator network; simulation beyond the BFS bound"""
    run_mc(w, [("dyn1", "MC_dyn1.cfg", 6, 600)] + ([] if q else [("dyn2", "MC_dyn2.cfg", 12, 1500)]), module="MC_dyn.tla")
    if not q:
        run_sim(w, "dyn1sim", "MC_dyn1_sim.cfg", 3000, 90, module="MC_dyn.tla", workers=8, timeout=900)
        run_sim(w, "dyn2sim", "MC_dyn2_sim.cfg", 3000, 90, module="MC_dyn.tla", workers=8, timeout=900)
        # sensitivity control: with an activation delay of 2 rounds (shorter than fame
        # takes) and two leaves in a four-validator network the design does diverge
        r = w.model_check("dynL", "MC_dynL.cfg", module="MC_dyn.tla", workers=4, timeout=600,
                          extra=("-simulate", "num=2000", "-depth", "260", "-seed", "5"))
        w.mc.pop()
        w.notes.append("design-level sensitivity control MC_dynL.cfg (ActivationDelay = 2, two leaves, N = 4): %s" % (
            "TLC finds a divergence (%s), as expected: safety needs the validator set of a round to be known before the round starts; "
            "trace validation monitors exactly that on the real code (Inv_C10_SetKnownBeforeRoundStarts)" % r.get("violated")
            if r.get("violated") else "no divergence found in this run (simulation; not a claim)"))


def plan_C10(w):
    q = Q(w)
    known = vlib.load_known()
    run_mc(w, [("hg1", "MC_hg1.cfg", 4, 300)])
    dyn_mc(w, q)
    traces, sums = drive_all(w, gossip_specs(w, dyn_kinds(w, q)), mode="dyn")
    tvs = w.validate_many(traces, par=6)
    violations, known_hits, drift = judge(w, "C10", tvs, known)
    st = None
    if not violations:
        st = selftest(w, "C10", first_segment(traces[0], os.path.join(w.dir, "seg.ndjson")), c10_corrupt,
                      "last validator-set entry reported by a node lost one peer")
    ops = {k: sum(s.get("extra", {}).get(k, 0) for s in sums) for k in ("joins", "leaves", "refused_by_app")}
    extra = {"selftest": st, "membership_operations": ops,
             "scenarios": "real Nodes over a synchronous transport: joins (new participants and participants that left earlier, replaying history from genesis with a fresh store), joins refused by the application, leaves, two requests started together (same activation window), random gossip with sync limit 40"}
    if ops["joins"] + ops["leaves"] < 2:
        raise Infra("vacuous run: no membership change happened")
    return conclude(w, "C10", sums, violations, known_hits, drift, extra=extra)


def c09_corrupt(d):
    # the store reports a recorded signature that does not verify
    if d.get("a") == "Sync":
        for b in d["o"].get("store", []):
            if b["sigs"]:
                b["sigs"][0]["q"] = "bad"
                return True
    return False


def plan_C09(w):
    q = Q(w)
    known = vlib.load_known()
    run_mc(w, [("hg1", "MC_hg1.cfg", 4, 300), ("hg2q", "MC_hg2q.cfg", 8, 600)])
    traces, sums = drive_all(w, gossip_specs(w, dyn_kinds(w, q)), mode="dyn")
    g = [("gsp", dict(traces=4 if q else 12, n=0, steps=130 if q else 250, sched="mix"))]
    t2, s2 = drive_all(w, gossip_specs(w, g))
    tvs = w.validate_many(traces + t2, par=6)
    violations, known_hits, drift = judge(w, "C09", tvs, known)
    st = None
    if not violations:
        st = selftest(w, "C09", first_segment(t2[0], os.path.join(w.dir, "seg.ndjson")), c09_corrupt,
                      "a recorded block signature reported as not verifying")
    inj = {}
    for s in sums:
        for k, v in s.get("extra", {}).get("adversarial_signature_events", {}).items():
            inj[k] = inj.get(k, 0) + v
    if sum(inj.values()) < 3:
        raise Infra("vacuous run: no adversarial signature payload was injected")
    extra = {"selftest": st, "adversarial_signature_events": inj,
             "payloads": "signature over another body, valid signatures for old / recent blocks by validators that joined later or left (not in the block's round set), duplicates, future and negative block indexes; published by Byzantine validators (one genesis validator when n >= 4, every joiner) as events on their own chain, while validator sets change"}
    return conclude(w, "C09", sums + s2, violations, known_hits, drift, extra=extra,
                    assumptions=["signature validity is decided by the driver's own ECDSA verification against the observing node's own block body",
                                 "malformed signature encodings are exercised by the C08 check (they abort ProcessSigPool)"])


def ff_corrupt_adopt(d):
    # a refused tampered response reported as adopted
    if d.get("a") == "FFOffer" and not d["x"]["valid"] and not d["o"]["adopted"]:
        d["o"]["adopted"] = True
        d["x"]["frame"] = {"round": 0, "peers": [], "roots": [], "evs": [], "psets": [{"r": 0, "peers": [1]}], "info": []}
        d["x"]["block"] = {"idx": 0, "rr": 0, "txs": [], "itxs": [], "rcpt": [], "signers": [], "dig": "x"}
        for k in ("known", "ps", "lcr", "loaded", "lastBlock", "lastRound", "topo", "target", "head", "seq", "anchor", "txpool"):
            d["o"].setdefault(k, [] if k in ("known", "ps", "txpool") else (-1 if k != "head" else ""))
        return True
    return False


def ff_corrupt_c13(d):
    # a fast-forwarded node reports another body for a block the others delivered too
    if d.get("a") == "FFOffer" and d["o"]["adopted"]:
        ff_corrupt_c13.node = d["n"]
        return False
    if getattr(ff_corrupt_c13, "node", None) and d.get("a") == "Sync" and d["n"] == ff_corrupt_c13.node and d["o"].get("blocks"):
        d["o"]["blocks"][0]["dig"] = "feedfacefeedface"
        ff_corrupt_c13.node = None
        return True
    return False


def ff_kinds(w, q):
    if q:
        return [("ffA", dict(traces=4, n=0, steps=240, arg="all")), ("ffB", dict(traces=4, n=5, steps=260))]
    return [("ff%d" % i, dict(traces=6, n=0, steps=400, arg="all" if i % 2 == 0 else "")) for i in range(5)] + \
           [("ffBd", dict(traces=3, n=4, steps=300, store="badger", cache=400))]


def ff_family(w, pid, corrupt, what):
    q = Q(w)
    known = vlib.load_known()
    run_mc(w, [("hg1", "MC_hg1.cfg", 4, 300)])
    if pid == "C13":
        # design level: Babble.tla with fast-forward (BabbleFF.tla), N = 4 with a validator that
        # receives nothing until it resets from a peer's anchor; simulation to 150 events
        r = run_sim(w, "ff4sim", "MC_ff4_sim.cfg", 2 if q else 10, 700, module="BabbleFF.tla", workers=8, timeout=1500)
        if r.get("violated"):
            w.notes.append("spec-level: %s violated in simulation of MC_ff4_sim.cfg (model only; not a verdict)" % r["violated"])
    traces, sums = drive_all(w, gossip_specs(w, ff_kinds(w, q)), mode="ff")
    if pid in ("C12", "C14"):
        # fast-syncing joiners in histories with membership changes: former validators
        # and later joiners are known to the victim without being in the anchor's set
        t9, s9 = drive_all(w, gossip_specs(w, [("dynF", dict(traces=3 if q else 8, n=0, steps=330 if q else 500, arg="fastsync"))]), mode="dyn")
        traces, sums = traces + t9, sums + s9
    if pid == "C13":
        # hashgraph level: fresh instances reset from every (other) block of recorded
        # DAGs - ordinary gossip DAGs and the "funky" one (out-of-order fame, coin rounds)
        ok = [("rstG", dict(traces=3 if q else 10, n=0, steps=90 if q else 160)),
              ("rstF", dict(traces=4 if q else 16, sched="funky"))]
        if not q:
            for k in ok:
                k[1]["arg"] = "thorough"
        t8, s8 = drive_all(w, gossip_specs(w, ok), mode="orders")
        # membership changes pending at the anchor: joiners that fast-sync
        t9, s9 = drive_all(w, gossip_specs(w, [("dynF", dict(traces=3 if q else 8, n=0, steps=330 if q else 500, arg="fastsync"))]), mode="dyn")
        # resets inside the six-round activation window of a join, a validator of the
        # old set staying quiet (its root must still be in every frame)
        t10, s10 = drive_all(w, gossip_specs(w, [("ffW", dict(traces=9 if q else 30, n=4, steps=240, arg="window"))]), mode="ff")
        # the anchor block itself carries a receipt and is not the first change of the history
        t11, s11 = drive_all(w, gossip_specs(w, [("ffJ", dict(traces=4 if q else 12, n=4, steps=240, arg="twojoins"))]), mode="ff")
        traces, sums = traces + t8 + t9 + t10 + t11, sums + s8 + s9 + s10 + s11
    tvs = w.validate_many(traces, par=6)
    violations, known_hits, drift = judge(w, pid, tvs, known)
    if pid == "C13":
        # continuity is the agreement of the fast-forwarded node with the others
        # (known findings of C13 that show as a C01 disagreement)
        known_via = [dict(k, property="C01") for k in known if k.get("property") == "C13" and k.get("via") == "C01"]
        v2, k2, _ = judge(w, "C01", tvs, known_via)
        for v in v2:
            v["what"] = "C13 via " + v["what"]
        violations += v2
        known_hits = sorted(set(known_hits + k2))
    st = None
    if not violations:
        if hasattr(corrupt, "node"):
            corrupt.node = None
        st = selftest(w, "C01" if pid == "C13" else pid, first_segment(traces[0], os.path.join(w.dir, "seg.ndjson")), corrupt, what)
    tot = {k: sum(s.get("extra", {}).get(k, 0) or 0 for s in sums if isinstance(s.get("extra", {}).get(k, 0), int)) for k in ("offers", "valid_adopted", "refused", "forged_adopted", "tamperings")}
    if tot["valid_adopted"] < 2:
        raise Infra("vacuous run: valid fast-forward responses were not adopted (%s)" % tot)
    extra = {"selftest": st, "fast_forward_offers": tot,
             "tamperings": "each body field (index, round-received, timestamp, state hash, frame hash, peers hash, transactions added/removed/altered, receipt), frame round/timestamp, frame event removed/duplicated/reordered/payload/round/witness/Lamport changed, root event changed, root removed, peer added/removed/reordered, peer-set table entry changed, signatures all removed / cut to one below the threshold / over another body / by non-members only / one signer under 2-4 spellings of its key; forged triples signed by 1 and 3 strangers; offered to a fresh node and to a node with history sent back to CatchingUp"}
    return conclude(w, pid, sums, violations, known_hits, drift, extra=extra,
                    assumptions=["frame hash = the repository's canonical frame encoding hashed with SHA-256 (the definition); peers hash, signature validity, distinct-signer count and trust are recomputed by the driver"])


def plan_C12(w):
    return ff_family(w, "C12", ff_corrupt_adopt, "a refused tampered response reported as adopted")


def plan_C13(w):
    return ff_family(w, "C13", ff_corrupt_c13, "a fast-forwarded node's first delivered block reports another body digest")


def plan_C14(w):
    return ff_family(w, "C14", ff_corrupt_adopt, "a refused response without trusted signer reported as adopted")


def c08_corrupt(d):
    if d.get("a") == "Rpc" and not d["o"]["panicked"]:
        d["o"]["panicked"] = True
        return True
    return False


def c17_corrupt(d):
    if d.get("a") == "StateRpc" and d["o"]["frozen"]:
        d["o"]["frozen"] = False
        return True
    return False


def rpc_kinds(w, q):
    if q:
        return [("rpcA", dict(traces=3, n=0, steps=120, arg="all")), ("rpcB", dict(traces=3, n=4, steps=140))]
    return [("rpc%d" % i, dict(traces=6, n=0, steps=200, arg="all")) for i in range(4)] + [("rpcBd", dict(traces=3, n=4, steps=160, arg="all", store="badger", cache=300))]


def plan_C08(w):
    q = Q(w)
    known = vlib.load_known()
    run_mc(w, [("hg1", "MC_hg1.cfg", 4, 300)])
    traces, sums = drive_all(w, gossip_specs(w, rpc_kinds(w, q)), mode="rpc")
    tb, sb = drive_all(w, gossip_specs(w, [("bytes", dict())]), mode="bytes")
    ta, sa = drive_all(w, gossip_specs(w, [("adm", dict(traces=3 if q else 8, n=0, steps=150 if q else 260, arg="all"))]), mode="admit")
    tf, sf = drive_all(w, gossip_specs(w, [("ffh", dict(traces=2 if q else 6, n=0, steps=200, arg="all"))]), mode="ff")
    tvs = w.validate_many(traces + tb + ta + tf, par=6)
    violations, known_hits, drift = judge(w, "C08", tvs, known)
    st = None
    if not violations:
        st = selftest(w, "C08", first_segment(traces[0], os.path.join(w.dir, "seg.ndjson")), c08_corrupt, "a hostile message reported as having crashed the node")
    tot = {}
    for s in sums + sb:
        for k, v in s.get("extra", {}).items():
            if isinstance(v, int):
                tot[k] = tot.get(k, 0) + v
    if tot.get("hostile_messages", 0) < 50 or tot.get("byte_streams", 0) < 50:
        raise Infra("vacuous run: %s" % tot)
    extra = {"selftest": st, "totals": tot,
             "grammar": "SyncRequest (limit, known map, sender), EagerSyncRequest / SyncResponse (every wire-event field: signature encodings, indexes, parents, creators, timestamps, nil/huge transactions, internal transactions with hostile keys and signatures, block signatures), JoinRequest (12 hostile key strings, 11 signature encodings, foreign signer), FastForwardRequest, FastForwardResponse (zero values, null peers/events/roots/cores, short parents, hostile signature-map keys and peer keys), delivered to real Nodes through processRPC / pull / fastForward; 10 framing classes of raw byte streams against the real TCP transport of a running Node (child processes); tampered events through InsertEvent; after every hostile input a valid pull, a valid push and ProcessSigPool must succeed and the delivered/stored blocks be unchanged"}
    return conclude(w, "C08", sums + sb + sa + sf, violations, known_hits, drift, extra=extra, min_blocks=0,
                    assumptions=["byte strings are sampled per framing class (10 classes, seeded); the structured grammar is enumerated with -arg all",
                                 "a panic in an RPC handler is caught by the driver where the real node has no recover: it is what would have killed the process"])


def plan_C17(w):
    q = Q(w)
    known = vlib.load_known()
    run_mc(w, [("hg1", "MC_hg1.cfg", 4, 300)])
    r = w.model_check("node", "MC_node.cfg", module="Node.tla", workers=2, timeout=300)
    if not r.get("complete"):
        raise Infra("Node.tla did not complete: %s" % r.get("raw_tail"))
    log("  mc node      Node.tla (state gate, heartbeat, transitions): distinct=%s, C17_Frozen / C17_SuspendedServesSync / C17_Final hold" % r.get("distinct"))
    traces, sums = drive_all(w, gossip_specs(w, rpc_kinds(w, q)), mode="rpc")
    td, sd = drive_all(w, gossip_specs(w, [("dyn", dict(traces=5 if q else 12, n=0, steps=330 if q else 500))]), mode="dyn")
    tvs = w.validate_many(traces + td, par=6)
    violations, known_hits, drift = judge(w, "C17", tvs, known)
    st = None
    if not violations:
        st = selftest(w, "C17", first_segment(traces[0], os.path.join(w.dir, "seg.ndjson")), c17_corrupt, "a request to a suspended node reported as having changed its state")
    tot = {}
    for s in sums:
        for k, v in s.get("extra", {}).items():
            if isinstance(v, int):
                tot[k] = tot.get(k, 0) + v
    if tot.get("state_requests", 0) < 20 or tot.get("heartbeats", 0) < 20:
        raise Infra("vacuous run: %s" % tot)
    extra = {"selftest": st, "totals": tot,
             "scenarios": "real Nodes put into Suspended / CatchingUp / Joining / Shutdown; valid Sync (3 shapes), EagerSync, Join and FastForward requests and a submitted transaction in each state: DAG, own events and delivered blocks unchanged, mutating requests refused, a suspended node's sync response equals the difference of its view against the requester's known map truncated to the limit with parents first; heartbeat (checkSuspend) after every exchange in runs with and without quorum: suspended iff undetermined - initial > limit x validators or the node reached its removal round (dyn-mode runs cover the eviction branch)"}
    return conclude(w, "C17", sums + sd, violations, known_hits, drift, extra=extra, min_blocks=0)


def c18_corrupt(d):
    if d.get("a") == "Sync":
        for b in d["o"].get("blocks", []):
            if len(b["fws"]) >= 1:
                b["ts"] += 5000
                return True
    return False


def plan_C18(w):
    q = Q(w)
    known = vlib.load_known()
    r = w.model_check("median", "MC_median.cfg", module="MedianLemma.tla", workers=8, timeout=600)
    if not r.get("complete"):
        raise Infra("MedianLemma did not complete: %s" % r.get("raw_tail"))
    log("  mc median lemma: %s (n,k,f) cases, every timestamp assignment each" % r.get("distinct"))
    run_mc(w, [("hg1", "MC_hg1.cfg", 4, 300)])
    kinds = [("liarsA", dict(traces=8 if q else 24, n=0, steps=260 if q else 400)),
             ("liarsB", dict(traces=2 if q else 8, n=7, steps=300 if q else 450)),
             ("liarsC", dict(traces=4 if q else 12, n=5, steps=300 if q else 450))]
    traces, sums = drive_all(w, gossip_specs(w, kinds), mode="liars")
    g = [("gsp", dict(traces=3 if q else 12, n=0, steps=120 if q else 250, sched="mix"))]
    t2, s2 = drive_all(w, gossip_specs(w, g))
    tvs = w.validate_many(traces + t2, par=6)
    violations, known_hits, drift = judge(w, "C18", tvs, known)
    st = None
    if not violations:
        seg = first_segment(traces[0], os.path.join(w.dir, "seg.ndjson"))
        st = selftest(w, "C18", seg, c18_corrupt, "a delivered block's timestamp shifted by 5000 s")
    extra = {"selftest": st,
             "median_lemma": "MedianLemma.tla exhaustive: n <= 7, k in SM(n)..n famous witnesses, f < n/3 liars over {-1e6,-7,0,3,4,1e6}, honest over {0,3,4}",
             "liar_timestamps": "0, -1, 1, MinInt64, MaxInt64, +-2^62, +-2^40, year 9999, random int64, +-1000 s around now"}
    return conclude(w, "C18", sums + s2, violations, known_hits, drift, extra=extra,
                    assumptions=["timestamps beyond +-2^28 s of the trace start are compared by order only (TLC integers are 32 bit); exact median arithmetic is checked when the middle elements are within that range, which is the case the property's bound speaks about"])


def c19_corrupt(d):
    if d.get("a") == "Quorum":
        d["x"]["rows"][6][1] += 1      # super-majority of n = 7 reported one too high
        return True
    return False


def tlaps_quorum(w):
    """the four lemmas for every n: TLAPS proof (SMT back end), re-checked on every run"""
    d = os.path.join(w.dir, "tlaps")
    os.makedirs(d, exist_ok=True)
    shutil.copy(os.path.join(vlib.SPEC, "QuorumProof.tla"), d)
    try:
        p = vlib.sh(["tlapm", "--threads", "8", "--cleanfp", "QuorumProof.tla"], cwd=d, timeout=900, check=False)
    except Exception as e:
        raise Infra("tlapm could not be run: %s" % e)
    out = p.stdout or ""
    import re as _re
    m = _re.search(r"All (\d+) obligations? proved", out)
    if not m:
        raise Infra("TLAPS proof of the quorum lemmas did not go through:\n%s" % out[-2000:])
    log("  tlaps QuorumProof.tla: all %s obligations proved (lemmas hold for every n)" % m.group(1))
    return {"module": "QuorumProof.tla", "obligations_proved": int(m.group(1)),
            "theorems": ["SuperMajorityIsLeastAboveTwoThirds", "TrustThreshold", "Intersection", "HonestMajority"]}


def plan_C19(w):
    known = vlib.load_known()
    r = w.model_check("quorum", "MC_quorum.cfg", module="Quorum.tla", workers=8, timeout=600)
    log("  mc quorum: distinct=%s (one state per n, n = 1..100000) %s" % (r.get("distinct"), "complete" if r.get("complete") else "INCOMPLETE"))
    if not r.get("complete"):
        raise Infra("Quorum.tla model checking did not complete: %s" % r.get("raw_tail"))
    tlaps = tlaps_quorum(w)
    # sensitivity control: with a "super-majority" of one half the design diverges at once
    mm = w.model_check("hg2_mutSM", "MC_hg2_mutSM.cfg", module="MC_hg.tla", workers=4, timeout=600)
    w.mc.pop()
    if not mm.get("violated"):
        raise Infra("spec mutant MC_hg2_mutSM.cfg (SuperMajority(n) = n/2) was not rejected by TLC: %s" % mm.get("raw_tail"))
    w.notes.append("spec mutant MC_hg2_mutSM.cfg (SuperMajority(n) = n div 2 in Babble.tla, N = 2) is rejected by TLC: %s" % mm["violated"])
    log("  mc mutant    MC_hg2_mutSM.cfg rejected: %s" % mm["violated"])
    tr, sm = w.drive("quorum", "quorum", ["-seed", w.seed, "-steps", 40 if Q(w) else 400])
    tv = w.validate(tr)
    violations, known_hits, drift = judge(w, "C19", [tv], known)
    st = None
    if not violations:
        st = selftest(w, "C19", tr, c19_corrupt, "SuperMajority reported for n=7 increased by one")
    rows = tv["stats"].get("inserts", 0)
    extra = {"selftest": st, "exhaustive": True, "tlaps": tlaps,
             "rows_tabulated_from_real_code": rows,
             "explanation": "exhaustive over n = 1..100000 both in the TLA+ model (Quorum.tla, 4 lemmas per n) and on values tabulated from the real PeerSet; plus sets built by seeded add/remove sequences and SetAnchorBlock/CheckBlock acceptance for n = 1..10, k = 0..n real signatures"}
    return conclude(w, "C19", [sm], violations, known_hits, drift, extra=extra, min_blocks=0,
                    samples=[{"n": 7, "SuperMajority": 5, "TrustCount": 3}, {"n": 100000, "SuperMajority": 66667, "TrustCount": 33334}],
                    assumptions=["beyond n = 100000 the lemmas rest on the TLAPS proof of QuorumProof.tla (same definitions as BabbleBase.tla; re-checked by tlapm in every run) - the code's thresholds are compared with those definitions for n <= 100000 and for sets built by additions and removals"])


# ------------------------------------------------------------------ C11 / C16 (persist mode)

def drive_par(w, specs, mode, par=4, timeout=900):
    import concurrent.futures as cf
    traces, sums = [], []
    with cf.ThreadPoolExecutor(max_workers=par) as ex:
        futs = [(name, ex.submit(w.drive, mode, name, args, timeout)) for name, args in specs]
        for name, f in futs:
            tr, sm = f.result()
            traces.append(tr)
            sums.append(sm)
            log("  driver %-12s traces=%d lines=%d events=%d blocks=%d errors=%d %s" % (
                name, sm["traces"], sm["lines"], sm["events"], sm["blocks"], sm["errors"],
                {k: v for k, v in sm.get("extra", {}).items() if k in ("crash_points", "restarts", "store_reads_checked", "op_sequences")}))
    return traces, sums


def store_mc(w):
    r = w.model_check("store", "MC_store.cfg", module="StoreMC.tla", workers=4, timeout=600)
    if not r.get("complete"):
        raise Infra("StoreMC did not complete: %s" % r.get("raw_tail"))
    log("  mc store     MC_store.cfg distinct=%s generated=%s (cache + database, crash, bootstrap replay)" % (r.get("distinct"), r.get("generated")))
    m = w.model_check("store_mut", "MC_store_mut.cfg", module="StoreMC.tla", workers=4, timeout=600)
    if m.get("violated") != "ReadLastWritten":
        raise Infra("StoreMC mutant (no write-through during bootstrap) was not rejected: %s" % m.get("raw_tail"))
    w.mc.pop()  # the mutant is a sensitivity control, not evidence of the design
    w.notes.append("spec mutant MC_store_mut.cfg (cache-only writes during bootstrap, the store before commit e188526) is rejected by TLC: ReadLastWritten")


def persist_kinds(w, q):
    if q:
        return [("psA", dict(traces=3, n=0, steps=200, cache=70)), ("psB", dict(traces=3, n=0, steps=220, cache=90)),
                ("psC", dict(traces=2, n=3, steps=240, cache=150))]
    # (rounds and frames live in the cache only - Store.GetRound never reads the database -
    # so the cache must hold every round of the run: 90 entries and up for these lengths)
    return [("ps%d" % i, dict(traces=6, n=0, steps=260 + 20 * i, cache=[90, 100, 120, 150, 250, 400][i % 6])) for i in range(8)] + \
           [("psN4", dict(traces=4, n=4, steps=320, cache=200)), ("psN5", dict(traces=3, n=5, steps=300, cache=300))]


def c11_corrupt(d):
    if d.get("a") == "Bootstrap" and len(d["o"].get("blocks", [])) >= 2:
        d["o"]["blocks"][1]["dig"] = "00" + d["o"]["blocks"][1]["dig"][2:]
        return True
    return False


def c16_corrupt(d):
    if d.get("a") == "StR" and d["x"].get("phase") == "reopen":
        for r in d["o"]["rows"]:
            if r["key"].startswith("blk:"):
                r["got"] = "0000" + r["got"][4:]
                return True
    return False


def persist_family(w, pid, corrupt, what, also=(), extra_modes=()):
    q = Q(w)
    known = vlib.load_known()
    store_mc(w)
    run_mc(w, [("hg1", "MC_hg1.cfg", 4, 300)])
    traces, sums = drive_par(w, gossip_specs(w, persist_kinds(w, q)), "persist", par=4 if q else 6)
    for mode, kinds in extra_modes:
        t2, s2 = drive_par(w, gossip_specs(w, kinds), mode, par=4)
        traces, sums = traces + t2, sums + s2
    tvs = w.validate_many(traces, par=6 if q else 8)
    violations, known_hits, drift = judge(w, pid, tvs, known, also=also)
    st = None
    if not violations:
        st = selftest(w, pid, first_segment(traces[0], os.path.join(w.dir, "seg.ndjson")), corrupt, what)
    tot = {}
    for s in sums:
        for k, v in s.get("extra", {}).items():
            if isinstance(v, int):
                tot[k] = tot.get(k, 0) + v
            elif isinstance(v, dict):
                for k2, v2 in v.items():
                    tot[k + "." + k2] = tot.get(k + "." + k2, 0) + v2
    tot["boots_validated"] = sum(r.get("stats", {}).get("boots", 0) for r in w.tv)
    tot["store_rows_written"] = sum(r.get("stats", {}).get("stw", 0) for r in w.tv)
    tot["store_reads_compared_by_tlc"] = sum(r.get("stats", {}).get("str", 0) for r in w.tv)
    if not violations and (tot.get("crash_points", 0) < 3 or tot.get("restarts", 0) < 6 or tot["store_reads_compared_by_tlc"] < 500):
        raise Infra("vacuous run: %s" % tot)
    return sums, violations, known_hits, drift, st, tot


def crash_mc(w, q):
    """C11 at design level: Babble.tla with kills between two steps and restart with
    bootstrap (BabbleCrash.tla): exhaustive for N = 1 (8 events, 2 crashes) and N = 2
    (7 / 9 events, 1 crash), simulation for N = 3 (60 events, 4 crashes)"""
    cfgs = [("crash1", "MC_crash1.cfg", 4, 300), ("crash2", "MC_crash2.cfg", 8, 600)]
    if not q:
        cfgs.append(("crash2t", "MC_crash2t.cfg", 12, 1500))
    for name, cfg, workers, timeout in cfgs:
        r = w.model_check(name, cfg, module="BabbleCrash.tla", workers=workers, timeout=timeout)
        if r.get("violated"):
            w.notes.append("spec-level: %s violated in %s (model only; not a verdict)" % (r["violated"], cfg))
        log("  mc %-10s %s distinct=%s generated=%s depth=%s %.0fs%s" % (name, cfg, r.get("distinct"), r.get("generated"), r.get("depth"), r["wall_s"],
                                                                    " TIMEOUT(bounded, incomplete)" if r.get("timeout") else ""))
    run_sim(w, "crash3sim", "MC_crash3_sim.cfg", 2 if q else 12, 220, module="BabbleCrash.tla", workers=8, timeout=900)


def plan_C11(w):
    q = Q(w)
    crash_mc(w, q)
    dynk = [("dynRs%d" % i, dict(traces=2 if q else 4, n=0, steps=300 if q else 420, arg="restart", store="badger", cache=400)) for i in range(1 if q else 4)]
    sums, violations, known_hits, drift, st, tot = persist_family(
        w, "C11", c11_corrupt, "a block re-delivered by a bootstrap reported with another body digest", also=("C01", "C02", "C03", "C04"),
        extra_modes=[("dyn", dynk)])
    extra = {"selftest": st, "totals": tot,
             "scenarios": "real cores over real Badger stores; kill at a chosen database write (any of the next 25 writes of the stepping node, or the next block / frame / round / event write): the database directory is copied as it is on disk at that instant and the step is abandoned; restart = new store object on the image, new core, reset application, Bootstrap, SetHeadAndSeq; clean restarts (Close, reopen); every node restarted at the end; gossip goes on after every restart.  Checked at every restart: blocks re-delivered = blocks delivered before (body, state hash, receipts, events), every event whose insertion the specification had completed is known, nothing else is, head and seq restored at or above anything any peer holds, no second event at a used height ever created, agreement and consecutiveness with the rest of the network afterwards, and the whole state after bootstrap equals the specification's replay (Conf_Boot_*)"}
    return conclude(w, "C11", sums, violations, known_hits, drift, extra=extra,
                    assumptions=["a kill is emulated by copying the database directory at the start of a dbSet* call (what the page cache holds = what SIGKILL leaves; no power loss) and abandoning the step by a panic out of that call",
                                 "persist-mode runs have a static validator set and crash inside steps; dyn-mode runs (real Nodes, joins and leaves accepted or refused) restart nodes between two steps: clean shutdown or copy of the database directory without closing it"])


def plan_C16(w):
    q = Q(w)
    stk = [("stor%d" % i, dict(traces=3 if q else 9, steps=140 if q else 220)) for i in range(1 if q else 4)]
    sums, violations, known_hits, drift, st, tot = persist_family(
        w, "C16", c16_corrupt, "a block read back after reopen reported with another digest", extra_modes=[("store", stk)])
    extra = {"selftest": st, "totals": tot,
             "scenarios": "every completed store write of real gossip runs is recorded (key, digest of the value written) and folded into the Store.tla map by TLC; reads through the public Store methods (cache, then database) and straight from Badger are compared with that map: events (full persisted form incl. coordinates), blocks with signatures, frames, rounds, peer-sets, roots; topological and per-participant listings (from -1 and from a random index, and single indexes) compared with the order of first writes; live with caches of 30..300 entries against histories of 200+ events, after clean reopen, on crash images, after bootstrap.  store mode: the complete write stream of a real run (deep copies of every value at write time) replayed into Badger stores with caches of 1, 2, 3, 5, 10, 50 entries, cut at arbitrary points, reads interleaved, final read-back, close, reopen, read-back; one variant in three ends with a fast-sync Reset from a recorded frame (non-empty roots) followed by a peer-set change"}
    return conclude(w, "C16", sums, violations, known_hits, drift, extra=extra,
                    assumptions=["stores reset by fast-sync are not covered by the listing checks (the property excludes them)",
                                 "after a bootstrap the cache holds what the replay recomputed: the public path is compared for keys written by the running incarnation, the database path for all keys"])


# ------------------------------------------------------------------ C15 (codec cases)

def c15_corrupt(d):
    if d.get("a") == "Codec" and d["x"].get("path") == "db":
        d["o"]["h1"] = "00" + d["o"]["h1"][2:]
        return True
    return False


def plan_C15(w):
    q = Q(w)
    known = vlib.load_known()
    r = w.model_check("codec", "MC_codec.cfg", module="Codec.tla", workers=1, timeout=300)
    if not r.get("complete"):
        raise Infra("Codec.tla did not complete: %s" % r.get("raw_tail"))
    cases = os.path.join(w.dir, "tlc_mc_codec", "codec_cases.json")
    if not os.path.exists(cases):
        raise Infra("TLC did not write the case list")
    lists = json.load(open(cases))
    ncases = sum(len(v) for v in lists.values())
    log("  mc codec     Codec.tla: %d cases written (%s)" % (ncases, {k: len(v) for k, v in lists.items()}))
    specs = [("codec%d" % i, ["-seed", w.seed * 31 + i, "-arg", cases]) for i in range(1 if q else 4)]
    traces, sums = drive_par(w, specs, "codec", par=4)
    for s in sums:
        if s["extra"]["cases_executed"] != ncases:
            raise Infra("driver executed %d of %d cases" % (s["extra"]["cases_executed"], ncases))
    # frames computed by different nodes of real runs (static and changing validator sets)
    g = [("gsp", dict(traces=3 if q else 10, n=0, steps=140 if q else 260, sched="mix"))]
    t2, s2 = drive_all(w, gossip_specs(w, g))
    t3, s3 = drive_all(w, gossip_specs(w, [("dyn", dict(traces=2 if q else 6, n=0, steps=300 if q else 450))]), mode="dyn")
    tvs = w.validate_many(traces + t2 + t3, par=6)
    for r in tvs[:len(traces)]:
        if r.get("stats", {}).get("codec") != ncases:
            raise Infra("TLC consumed %s of %d codec cases" % (r.get("stats", {}).get("codec"), ncases))
    violations, known_hits, drift = judge(w, "C15", tvs, known)
    st = None
    if not violations:
        st = selftest(w, "C15", traces[0], c15_corrupt, "the hash of an event reloaded from the database reported differently")
    extra = {"selftest": st, "cases": {k: len(v) for k, v in lists.items()}, "cases_total": ncases,
             "scenarios": "TLC enumerates the case domain of CodecCases.tla (event: 5 transaction shapes x 4 internal-transaction shapes x 4 block-signature shapes x 4 parent combinations x 4 paths; block: 5 x 4 x receipts x 0/1/3 signatures x 2 paths; frame: 0/1/5 events x roots x 1/3 peers x 1/3 peer-sets x 3 paths); the driver executes every case through the real ToWire/ReadWireInfo, encoding/json transport structs, MarshalDB/UnmarshalDB via a closed and reopened Badger store, Frame.Marshal with maps filled in reverse order; TLC checks per case: case is in the domain, hash equal, signatures still valid, payload digest equal; plus: the frame hash and peers hash of every block delivered by different real nodes (gossip with static and changing validator sets) are equal"}
    return conclude(w, "C15", sums + s2 + s3, violations, known_hits, drift, extra=extra, min_blocks=1,
                    assumptions=["block signatures carried by an event are the creator's own (the wire form drops the validator key and restores it from the creator)",
                                 "payload bytes are random per seed; shapes are exhaustive over the finite domain of CodecCases.tla, sizes are not (up to 20 transactions of up to 40 bytes)"])


# ------------------------------------------------------------------ C20 (proxy cases)

def c20_corrupt(d):
    if d.get("a") == "Proxy" and d["x"].get("kind") == "commit" and d["o"].get("ok") and d["o"]["runs"]:
        d["o"]["runs"][0]["p"] = "00" + d["o"]["runs"][0]["p"][2:]
        return True
    return False


def plan_C20(w):
    q = Q(w)
    known = vlib.load_known()
    r = w.model_check("proxy", "MC_proxy.cfg", module="Proxy.tla", workers=1, timeout=300)
    if not r.get("complete"):
        raise Infra("Proxy.tla did not complete: %s" % r.get("raw_tail"))
    cases = os.path.join(w.dir, "tlc_mc_proxy", "proxy_cases.json")
    if not os.path.exists(cases):
        raise Infra("TLC did not write the case list")
    lists = json.load(open(cases))
    ncases = sum(len(v) for v in lists.values())
    log("  mc proxy     Proxy.tla: retry state machine distinct=%s; %d cases written (%s)" % (r.get("distinct"), ncases, {k: len(v) for k, v in lists.items()}))
    sample = 500 if q else 0
    specs = [("proxy%d" % i, ["-seed", w.seed * 37 + i, "-steps", sample, "-arg", cases]) for i in range(2 if q else 3)]
    traces, sums = drive_par(w, specs, "proxy", par=3)
    expect = ncases if not q else sample + len(lists["submits"]) + len(lists["snapshots"])
    for s in sums:
        if s["extra"]["cases_executed"] != expect:
            raise Infra("driver executed %d of %d cases" % (s["extra"]["cases_executed"], expect))
        if s["extra"]["commit_success_despite_fault"] < 20 or s["extra"]["commit_errors_reported"] < 20:
            raise Infra("vacuous run: %s" % s["extra"])
    tvs = w.validate_many(traces, par=4)
    for r in tvs:
        if r.get("stats", {}).get("proxy") != expect:
            raise Infra("TLC consumed %s of %d proxy cases" % (r.get("stats", {}).get("proxy"), expect))
    violations, known_hits, drift = judge(w, "C20", tvs, known)
    st = None
    if not violations:
        st = selftest(w, "C20", traces[0], c20_corrupt, "the block seen by the application handler reported with another payload digest")
    extra = {"selftest": st, "cases": {k: len(v) for k, v in lists.items()}, "cases_total": ncases, "cases_executed_per_driver": expect,
             "scenarios": "TLC checks the three-attempt retry state machine of the socket proxy clients (Proxy.tla) and enumerates the case domain of ProxyCases.tla: CommitBlock with 6 transaction shapes (nil, empty, one empty, binary, many, 1 MiB) x internal transactions x 4 state-hash shapes (nil, empty, 32 bytes, 512 KiB) x 3 receipt shapes, through the in-process proxy and through the real socket proxy pair over loopback, under 11 connection-fault scripts applied by a relay (refused connections, reply lost after the handler ran, black hole until the timeout, idle connection killed, the application down for a while, handler error); GetSnapshot / Restore with nil, empty, binary and 1 MiB snapshots; SubmitTx sequences of 5 transactions from one reused client buffer (empty, text, non-UTF-8, 1 MiB) with a fault at the third.  TLC checks per executed case: every handler run saw the block that was sent (hash, payload digest, signatures), a successful call returned exactly what a successful handler run returned, success implies a successful handler run, a handler error is reported as an error, acknowledged transactions arrive byte-identical in submission order and nothing else arrives" + (" (quick tier: a seeded sample of %d commit cases per driver; the thorough tier runs all)" % sample if q else "")}
    return conclude(w, "C20", sums, violations, known_hits, drift, extra=extra, min_blocks=0,
                    assumptions=["connection drops are produced by a TCP relay between the two proxy sides on loopback (close on accept, close when the reply starts, never answer, close the idle connection); drops in the middle of a JSON document are not produced",
                                 "proxy timeout 150 ms in these runs"])


PLANS = {
    "C20": plan_C20,
    "C15": plan_C15,
    "C11": plan_C11,
    "C16": plan_C16,
    "C08": plan_C08,
    "C17": plan_C17,
    "C12": plan_C12,
    "C13": plan_C13,
    "C14": plan_C14,
    "C09": plan_C09,
    "C06": plan_C06,
    "C07": plan_C07,
    "C10": plan_C10,
    "C05": plan_C05,
    "C03": plan_C03,
    "C18": plan_C18,
    "C19": plan_C19,
    "C01": plan_C01,
    "C02": plan_C02,
    "C04": plan_C04,
}
