"""Shared machinery of /verif/bin/check: build the harness from /repo's working
tree, run the driver, run TLC (model checking and trace validation), parse the
results, apply known findings, write evidence."""
import json, os, re, shutil, subprocess, sys, time, glob, hashlib, random

VERIF = os.path.dirname(os.path.dirname(os.path.abspath(__file__)))
REPO = os.environ.get("VERIF_REPO", "/repo")
SPEC = os.path.join(VERIF, "spec")
RUN = os.path.join(VERIF, "run")
# (a seed sweep runs the checks against a scratch worktree and must not overwrite the evidence of /repo)
REPLAY = os.environ.get("VERIF_REPLAY_DIR", os.path.join(VERIF, "replay"))
EVID = os.environ.get("VERIF_EVID_DIR", os.path.join(VERIF, "evidence"))
JAVA_CP = "/opt/veriftools/tla/tla2tools.jar:/opt/veriftools/tla/CommunityModules-deps.jar"

GOENV = dict(os.environ, GOFLAGS="-mod=mod", GOPROXY="off", GOSUMDB="off", GOTOOLCHAIN="local")


class Infra(Exception):
    """infrastructure failure: exit 2, never a violation"""


def log(*a):
    print(*a, flush=True)


def sh(cmd, cwd=None, env=None, timeout=None, check=True):
    p = subprocess.run(cmd, cwd=cwd, env=env, timeout=timeout, stdout=subprocess.PIPE,
                       stderr=subprocess.STDOUT, text=True, errors="replace")
    if check and p.returncode != 0:
        raise Infra("command failed (%d): %s\n%s" % (p.returncode, " ".join(cmd), p.stdout[-4000:]))
    return p


class Work:
    def __init__(self, pid, tier, seed):
        self.pid, self.tier, self.seed = pid, tier, seed
        self.dir = os.path.join(RUN, "%s_%s_%d_%d" % (pid, tier, seed, os.getpid()))
        shutil.rmtree(self.dir, ignore_errors=True)
        os.makedirs(self.dir)
        os.makedirs(REPLAY, exist_ok=True)
        os.makedirs(EVID, exist_ok=True)
        self.t0 = time.time()
        self.driver = None
        self.mc = []          # model-checking results
        self.tv = []          # trace-validation results
        self.notes = []

    def cleanup(self):
        shutil.rmtree(self.dir, ignore_errors=True)

    # ------------------------------------------------------------ build
    def build(self):
        h = os.path.join(self.dir, "harness")
        shutil.copytree(os.path.join(VERIF, "harness"), h)
        shutil.copy(os.path.join(REPO, "go.sum"), os.path.join(h, "go.sum"))
        if REPO != "/repo":
            gm = open(os.path.join(h, "go.mod")).read().replace("=> /repo", "=> " + REPO)
            open(os.path.join(h, "go.mod"), "w").write(gm)
        out = os.path.join(self.dir, "vdriver")
        p = sh(["go", "build", "-tags", "verif", "-o", out, "."], cwd=h, env=GOENV, timeout=900, check=False)
        if p.returncode != 0:
            raise Infra("harness does not build against %s:\n%s" % (REPO, p.stdout[-3000:]))
        self.driver = out
        return out

    # ------------------------------------------------------------ driver
    def drive(self, mode, name, args, timeout=2400):
        """run the driver; returns (trace path, summary dict)"""
        tr = os.path.join(self.dir, name + ".ndjson")
        sm = os.path.join(self.dir, name + ".sum.json")
        cmd = [self.driver, mode, "-out", tr, "-summary", sm, "-dir", os.path.join(self.dir, "scratch_" + name)] + [str(a) for a in args]
        os.makedirs(os.path.join(self.dir, "scratch_" + name), exist_ok=True)
        p = sh(cmd, cwd=self.dir, env=GOENV, timeout=timeout, check=False)
        shutil.rmtree(os.path.join(self.dir, "scratch_" + name), ignore_errors=True)
        if p.returncode != 0 or not os.path.exists(sm):
            raise Infra("driver %s failed (%d):\n%s" % (mode, p.returncode, p.stdout[-3000:]))
        return tr, json.load(open(sm))

    # ------------------------------------------------------------ TLC
    def _specdir(self, name):
        d = os.path.join(self.dir, "tlc_" + name)
        os.makedirs(d, exist_ok=True)
        for f in glob.glob(os.path.join(SPEC, "*.tla")) + glob.glob(os.path.join(SPEC, "*.cfg")):
            shutil.copy(f, d)
        return d

    def tlc(self, name, module, cfg, workers=1, timeout=600, env=None, extra=(), heap="6g"):
        d = self._specdir(name)
        cmd = ["java", "-XX:+UseParallelGC", "-Xss512m", "-Xmx" + heap, "-cp", JAVA_CP, "tlc2.TLC",
               "-workers", str(workers), "-metadir", os.path.join(d, "meta"), "-config", cfg] + list(extra) + [module]
        e = dict(os.environ)
        if env:
            e.update(env)
        t0 = time.time()
        try:
            p = subprocess.run(cmd, cwd=d, env=e, timeout=timeout, stdout=subprocess.PIPE,
                               stderr=subprocess.STDOUT, text=True, errors="replace")
            out, rc = p.stdout, p.returncode
        except subprocess.TimeoutExpired as ex:
            out = (ex.stdout or b"").decode("utf-8", "replace") if isinstance(ex.stdout, bytes) else (ex.stdout or "")
            rc = -9
        dt = time.time() - t0
        shutil.rmtree(os.path.join(d, "meta"), ignore_errors=True)
        return out, rc, dt

    def model_check(self, name, cfg, module="MC_hg.tla", workers=8, timeout=900, expect_violation=None, heap="12g", extra=()):
        out, rc, dt = self.tlc("mc_" + name, module, cfg, workers=workers, timeout=timeout, heap=heap, extra=extra)
        res = parse_mc(out)
        res.update(name=name, cfg=cfg, wall_s=round(dt, 1), rc=rc)
        if rc == -9:
            res["timeout"] = True
        self.mc.append(res)
        if res.get("error") and not res.get("violated"):
            raise Infra("TLC failed on %s: %s" % (cfg, res["error"][:2000]))
        return res

    def validate(self, trace, name=None, cfg="Trace.cfg", timeout=1200):
        name = name or os.path.basename(trace).replace(".ndjson", "")
        nc = 1
        for line in open(trace):
            if '"a":"Init"' in line:
                nc = max(nc, int(json.loads(line)["x"]["nc"]))
        out, rc, dt = self.tlc("tv_" + name, "Trace.tla", cfg, workers=1, timeout=timeout,
                               env={"TRACE_FILE": trace, "TRACE_NC": str(nc)})
        res = parse_tv(out)
        res.update(trace=trace, wall_s=round(dt, 1), rc=rc)
        nlines = sum(1 for _ in open(trace))
        if res.get("done") != nlines:
            tail = "\n".join(l for l in out.splitlines() if not l.startswith(("Linting", "Semantic", "Parsing", "Warning", "line ", "its definition")) and l.strip())[-3000:]
            raise Infra("trace %s not fully consumed by TLC (done=%s of %d lines)\n%s" % (trace, res.get("done"), nlines, tail))
        self.tv.append(res)
        return res

    def validate_many(self, traces, timeout=1200, par=6):
        """validate several trace files in parallel"""
        import concurrent.futures as cf
        results = []
        with cf.ThreadPoolExecutor(max_workers=par) as ex:
            futs = [ex.submit(self.validate, t, None, "Trace.cfg", timeout) for t in traces]
            for f in futs:
                results.append(f.result())
        return results


REC = re.compile(r"\[([^\[\]]*)\]")


def _records(txt):
    res = []
    for m in REC.finditer(txt):
        body = m.group(1)
        if "|->" not in body:
            continue
        d = {}
        for part in re.split(r",\s*(?=\w+ \|->)", body):
            if "|->" not in part:
                continue
            k, v = part.split("|->", 1)
            v = v.strip()
            if v.startswith('"') and v.endswith('"'):
                v = v[1:-1]
            else:
                try:
                    v = int(v)
                except ValueError:
                    pass
            d[k.strip()] = v
        res.append(d)
    return res


def parse_tv(out):
    res = {"viol": [], "drift": [], "stats": {}, "done": None}
    m = re.search(r'<<\s*"@@VIOL",(.*?)>>\s*\n\s*<<\s*"@@DRIFT"', out, re.S)
    if m:
        res["viol"] = _records(m.group(1))
    m = re.search(r'<<\s*"@@DRIFT",(.*?)>>\s*\n\s*<<\s*"@@STATS"', out, re.S)
    if m:
        res["drift"] = _records(m.group(1))
    m = re.search(r'<<\s*"@@STATS",(.*?)>>\s*\n\s*<<\s*"@@DONE"', out, re.S)
    if m:
        rs = _records(m.group(1))
        if rs:
            res["stats"] = rs[0]
    m = re.search(r'<<\s*"@@DONE",\s*(\d+)\s*>>', out)
    if m:
        res["done"] = int(m.group(1))
    m = re.search(r"(\d+) states generated, (\d+) distinct states found", out)
    if m:
        res["states_generated"], res["distinct"] = int(m.group(1)), int(m.group(2))
    if "Error:" in out:
        res["error"] = out[out.index("Error:"):][:1500]
    return res


def parse_mc(out):
    res = {}
    ms = re.findall(r"(\d+) states generated, (\d+) distinct states found, (\d+) states left on queue", out)
    if ms:
        g, d, q = ms[-1]
        res.update(generated=int(g), distinct=int(d), queue=int(q))
    m = re.search(r"The depth of the complete state graph search is (\d+)", out)
    if m:
        res["depth"] = int(m.group(1))
    m = re.search(r"Invariant (\w+) is violated", out)
    if m:
        res["violated"] = m.group(1)
    m = re.search(r"Action property (\w+) is violated|Temporal properties were violated", out)
    if m:
        res["violated"] = m.group(1) or "temporal"
    if "Model checking completed. No error has been found" in out:
        res["complete"] = True
    elif "Error:" in out:
        res["error"] = out[out.index("Error:"):][:3000]
    res["raw_tail"] = "\n".join(out.splitlines()[-15:])
    return res


# ---------------------------------------------------------------- known findings

def load_known():
    p = os.path.join(VERIF, "known_findings.json")
    if not os.path.exists(p):
        return []
    return json.load(open(p)).get("findings", [])


def match_known(pid, v, known):
    """a violation record matches a listed finding when property, invariant and
    the identifying detail (d) are the same"""
    for k in known:
        if k.get("status") != "known":
            continue
        if k["property"] != pid or k["inv"] != v.get("inv"):
            continue
        if "d" in k and k["d"] != v.get("d"):
            continue
        return k
    return None


# ---------------------------------------------------------------- evidence and verdict

def repo_state():
    """commit and cleanliness of the tree the harness was built from"""
    try:
        head = subprocess.run(["git", "-C", REPO, "rev-parse", "--short", "HEAD"], stdout=subprocess.PIPE, text=True, timeout=20).stdout.strip()
        dirty = subprocess.run(["git", "-C", REPO, "status", "--porcelain", "--untracked-files=no"], stdout=subprocess.PIPE, text=True, timeout=20).stdout.strip() != ""
        return {"repo": REPO, "head": head, "working_tree_modified": dirty}
    except Exception as e:
        return {"repo": REPO, "error": str(e)}


def finish(w, pid, coverage, assumptions, violations, known_hits, level="model_checking"):
    coverage = dict(coverage)
    coverage["built_from"] = repo_state()
    ev = {
        "property_id": pid, "tier": w.tier, "seed": w.seed, "level": level,
        "coverage": coverage, "assumptions": assumptions,
        "wall_s": round(time.time() - w.t0, 1), "violations": len(violations),
    }
    json.dump(ev, open(os.path.join(EVID, pid + ".json"), "w"), indent=1, sort_keys=True)
    for k in known_hits:
        log("KNOWN-FINDING: property=%s %s" % (pid, k))
    for v in violations:
        log("VIOLATION property=%s replay=%s   (%s)" % (pid, v["replay"], v.get("what", "")))
    return 1 if violations else 0


def keep_replay(w, trace, tag):
    dst = os.path.join(REPLAY, "%s_%s_s%d_%s.ndjson" % (w.pid, w.tier, w.seed, tag))
    os.makedirs(REPLAY, exist_ok=True)
    shutil.copy(trace, dst)
    return dst


def corrupt_trace(src, dst, fn):
    """copy a trace applying fn(line_dict) -> bool (True once it changed something)"""
    done = False
    with open(src) as f, open(dst, "w") as g:
        for line in f:
            if not done:
                d = json.loads(line)
                if fn(d):
                    done = True
                    line = json.dumps(d) + "\n"
            g.write(line)
    return done
