package main

// PNode: a Byzantine puppet.  It owns a key and a plain real hashgraph (so
// that it can resolve wire events and compute diffs), but its own events are
// crafted by the driver: arbitrary claimed timestamps, arbitrary block
// signatures.  It never equivocates unless a scenario asks for it.

import (
	"math"
	"sort"

	hg "github.com/mosaicnetworks/babble/src/hashgraph"
)

type PNode struct {
	w      *World
	num    int
	part   *Part
	h      *hg.Hashgraph
	store  hg.Store
	head   string
	seq    int
	tsGen  func() int64
	sigGen func(p *PNode) []hg.BlockSignature
}

func (w *World) NewPNode(p *Part, genesis []int) *PNode {
	st := hg.NewInmemStore(100000)
	h := hg.NewHashgraph(st, hg.DummyInternalCommitCallback, quietLogger())
	h.Init(w.PeerSet(genesis))
	return &PNode{w: w, num: p.Num, part: p, h: h, store: st, seq: -1}
}

// storeDiff replicates core.eventDiff over a bare store.
func storeDiff(st hg.Store, known map[uint32]int) []*hg.Event {
	unknown := []*hg.Event{}
	for id := range st.KnownEvents() {
		ct, ok := known[id]
		if !ok {
			ct = -1
		}
		peer, ok := st.RepertoireByID()[id]
		if !ok {
			continue
		}
		evs, err := st.ParticipantEvents(peer.PubKeyString(), ct)
		if err != nil {
			continue
		}
		for _, e := range evs {
			if ev, err := st.GetEvent(e); err == nil {
				unknown = append(unknown, ev)
			}
		}
	}
	sort.SliceStable(unknown, func(i, j int) bool { return unknown[i].VTopologicalIndex() < unknown[j].VTopologicalIndex() })
	return unknown
}

func toWire(evs []*hg.Event) []hg.WireEvent {
	res := make([]hg.WireEvent, len(evs))
	for i, e := range evs {
		res[i] = e.ToWire()
	}
	return res
}

// Receive inserts wire events into the puppet's own view; returns the last
// event of creator fromID that it now holds.
func (p *PNode) Receive(wire []hg.WireEvent) {
	for _, we := range wire {
		ev, err := p.h.ReadWireInfo(we)
		if err != nil {
			return
		}
		if err := p.h.InsertEventAndRunConsensus(ev, false); err != nil {
			if hg.IsNormalSelfParentError(err) {
				continue
			}
			return
		}
	}
}

// Create crafts, signs and inserts (into the puppet's own view) a new event.
func (p *PNode) Create(otherParent string, ts int64, txs [][]byte, sigs []hg.BlockSignature) *hg.Event {
	ev := hg.NewEvent(txs, nil, sigs, []string{p.head, otherParent}, p.part.Pub, p.seq+1)
	ev.Body.Timestamp = ts
	if err := ev.Sign(p.part.Key); err != nil {
		panic(err)
	}
	if err := p.h.InsertEventAndRunConsensus(ev, true); err != nil {
		return nil
	}
	p.head = ev.Hex()
	p.seq = ev.Index()
	inf, isNew := p.w.Register(ev)
	if isNew {
		p.w.EmitCreate(inf)
	}
	return ev
}

func (p *PNode) lastFrom(pubHex string) string {
	last, err := p.store.LastEventFrom(pubHex)
	if err != nil {
		return ""
	}
	return last
}

var extremeTS = []int64{0, -1, 1, math.MinInt64, math.MaxInt64, 1 << 62, -(1 << 62), 1 << 40, -(1 << 40), 253402300800, 86400}
