package main

import (
	"encoding/json"
	"flag"
	"fmt"
	"os"
	"time"
)

type Summary struct {
	Mode    string                 `json:"mode"`
	Traces  int                    `json:"traces"`
	Lines   int                    `json:"lines"`
	Steps   int                    `json:"steps"`
	Events  int                    `json:"events"`
	Blocks  int                    `json:"blocks"`
	Errors  int                    `json:"errors"`
	Extra   map[string]interface{} `json:"extra,omitempty"`
	Samples []interface{}          `json:"samples,omitempty"`
}

func writeSummary(path string, s *Summary) {
	if path == "" {
		return
	}
	b, _ := json.MarshalIndent(s, "", " ")
	os.WriteFile(path, b, 0644)
}

func main() {
	if len(os.Args) < 2 {
		fmt.Fprintln(os.Stderr, "usage: vdriver <mode> [flags]")
		os.Exit(2)
	}
	mode := os.Args[1]
	fs := flag.NewFlagSet(mode, flag.ExitOnError)
	seed := fs.Int64("seed", 1, "seed")
	out := fs.String("out", "trace.ndjson", "trace output")
	sum := fs.String("summary", "", "summary json output")
	traces := fs.Int("traces", 1, "number of traces")
	n := fs.Int("n", 4, "validators")
	steps := fs.Int("steps", 200, "steps per trace")
	sched := fs.String("sched", "random", "scheduler")
	store := fs.String("store", "inmem", "store kind")
	cache := fs.Int("cache", 10000, "cache size")
	dir := fs.String("dir", "", "scratch dir")
	txp := fs.Float64("txp", 0.3, "tx submission probability per step")
	full := fs.Int("full", 1, "store snapshot every k steps (0: never)")
	arg := fs.String("arg", "", "mode-specific argument")
	fs.Parse(os.Args[2:])

	start := time.Now()
	var s *Summary
	switch mode {
	case "gossip":
		s = runGossip(*seed, *out, *traces, *n, *steps, *sched, *store, *cache, *dir, *txp, *full)
	default:
		if f, ok := modes[mode]; ok {
			s = f(&Opts{Seed: *seed, Out: *out, Traces: *traces, N: *n, Steps: *steps, Sched: *sched,
				Store: *store, Cache: *cache, Dir: *dir, TxP: *txp, Full: *full, Arg: *arg})
		} else {
			fmt.Fprintln(os.Stderr, "unknown mode", mode)
			os.Exit(2)
		}
	}
	if s.Extra == nil {
		s.Extra = map[string]interface{}{}
	}
	s.Extra["wall_s"] = time.Since(start).Seconds()
	writeSummary(*sum, s)
	fmt.Printf("vdriver %s: traces=%d lines=%d steps=%d events=%d blocks=%d errors=%d (%.1fs)\n",
		mode, s.Traces, s.Lines, s.Steps, s.Events, s.Blocks, s.Errors, time.Since(start).Seconds())
}

type Opts struct {
	Seed   int64
	Out    string
	Traces int
	N      int
	Steps  int
	Sched  string
	Store  string
	Cache  int
	Dir    string
	TxP    float64
	Full   int
	Arg    string
}

var modes = map[string]func(*Opts) *Summary{}
