package main

// World: participants, the driver's own record of every event (the DAG
// oracle input), transaction / internal-transaction ids, and the trace writer.

import (
	"bufio"
	"math"
	"crypto/ecdsa"
	"crypto/sha256"
	"encoding/hex"
	"encoding/json"
	"fmt"
	"math/big"
	"math/rand"
	"os"
	"sort"
	"strings"

	"github.com/mosaicnetworks/babble/src/crypto/keys"
	hg "github.com/mosaicnetworks/babble/src/hashgraph"
	"github.com/mosaicnetworks/babble/src/peers"
)

// Part is a participant (key pair) known to the driver.
type Part struct {
	Num    int // 1-based creator number used in traces
	Key    *ecdsa.PrivateKey
	Peer   *peers.Peer
	PubHex string
	Pub    []byte
	ID     uint32
}

// ItxInfo is the abstract form of an internal transaction.
type ItxInfo struct {
	ID   string `json:"id"`
	Typ  string `json:"typ"` // "add" | "rem"
	Peer int    `json:"peer"`
	OK   bool   `json:"ok"`  // the application accepts it
	Sig  bool   `json:"sig"` // signature verifies for the peer it concerns
}

// SigInfo is the abstract form of a block signature carried by an event.
type SigInfo struct {
	Blk int    `json:"blk"`
	Q   string `json:"q"` // good | bad | mal
}

// EvInfo is the driver's record of one event.
type EvInfo struct {
	ID   string
	C, I int
	SP   string
	OP   string
	Txs  []string
	Itxs []ItxInfo
	Sigs []SigInfo
	TS   int64
	SR   [2]int
	Mid  bool
	OK   bool
	Hash string
	Ev   *hg.Event
	Seq  int // creation order
}

type World struct {
	rng     *rand.Rand
	parts   []*Part
	byPub   map[string]*Part
	events  map[string]*EvInfo // by hash
	byID    map[string]*EvInfo
	txIDs   map[string]string // hex(bytes) -> id
	txBytes map[string][]byte
	itxIDs  map[string]*ItxInfo // by itx body hash string
	refuse  map[string]bool     // itx ids the application refuses
	tsBase  int64
	faults  bool // wrap stores in a FaultStore
	itxSeen map[string]bool
	sigMemo map[string]string
	out     *bufio.Writer
	outF    *os.File
	traceNo int
	seq     int
	lines   int
	// honest body hash per block index (first delivered), for signature classification
	bodies map[int][][]byte
}

func NewWorld(seed int64, n int) *World {
	w := &World{
		rng:     rand.New(rand.NewSource(seed)),
		byPub:   map[string]*Part{},
		events:  map[string]*EvInfo{},
		byID:    map[string]*EvInfo{},
		txIDs:   map[string]string{},
		txBytes: map[string][]byte{},
		itxIDs:  map[string]*ItxInfo{},
		refuse:  map[string]bool{},
		bodies:  map[int][][]byte{},
		sigMemo: map[string]string{},
	}
	for i := 0; i < n; i++ {
		w.AddPart()
	}
	return w
}

func (w *World) AddPart() *Part {
	key, err := keys.GenerateECDSAKey()
	if err != nil {
		panic(err)
	}
	num := len(w.parts) + 1
	pubHex := keys.PublicKeyHex(&key.PublicKey)
	p := &Part{
		Num:    num,
		Key:    key,
		PubHex: pubHex,
		Pub:    keys.FromPublicKey(&key.PublicKey),
		Peer:   peers.NewPeer(pubHex, fmt.Sprintf("addr%d", num), fmt.Sprintf("n%d", num)),
	}
	p.ID = p.Peer.ID()
	w.parts = append(w.parts, p)
	w.byPub[strings.ToUpper(pubHex)] = p
	return p
}

func (w *World) PartByPub(pub string) *Part { return w.byPub[strings.ToUpper(pub)] }

func (w *World) PartByID(id uint32) *Part {
	for _, p := range w.parts {
		if p.ID == id {
			return p
		}
	}
	return nil
}

func (w *World) PeerSet(nums []int) *peers.PeerSet {
	ps := []*peers.Peer{}
	for _, k := range nums {
		p := w.parts[k-1]
		ps = append(ps, peers.NewPeer(p.Peer.PubKeyHex, p.Peer.NetAddr, p.Peer.Moniker))
	}
	return peers.NewPeerSet(ps)
}

func (w *World) PeerNums(ps []*peers.Peer) []int {
	res := []int{}
	for _, p := range ps {
		if q := w.PartByPub(p.PubKeyHex); q != nil {
			res = append(res, q.Num)
		} else {
			res = append(res, 0)
		}
	}
	return res
}

// ---------------------------------------------------------------- transactions

func (w *World) NewTx(payload []byte) (string, []byte) {
	k := hex.EncodeToString(payload)
	if id, ok := w.txIDs[k]; ok {
		return id, payload
	}
	id := fmt.Sprintf("t%d", len(w.txIDs)+1)
	w.txIDs[k] = id
	w.txBytes[id] = payload
	return id, payload
}

func (w *World) TxID(b []byte) string {
	if id, ok := w.txIDs[hex.EncodeToString(b)]; ok {
		return id
	}
	return "t?" + hex.EncodeToString(b)
}

func (w *World) RandTx() (string, []byte) {
	n := 1 + w.rng.Intn(12)
	b := make([]byte, n)
	w.rng.Read(b)
	// make it unique
	b = append(b, []byte(fmt.Sprintf("#%d", len(w.txIDs)))...)
	return w.NewTx(b)
}

// ---------------------------------------------------------------- internal transactions

func itxKey(t *hg.InternalTransaction) string {
	h, _ := t.Body.Hash()
	return hex.EncodeToString(h) + "|" + t.Signature
}

func (w *World) ItxInfoOf(t *hg.InternalTransaction) ItxInfo {
	k := itxKey(t)
	if inf, ok := w.itxIDs[k]; ok {
		return *inf
	}
	typ := "add"
	if t.Body.Type == hg.PEER_REMOVE {
		typ = "rem"
	}
	peer := 0
	if p := w.PartByPub(t.Body.Peer.PubKeyHex); p != nil {
		peer = p.Num
	}
	sigok := safeVerifyItx(t)
	inf := &ItxInfo{ID: fmt.Sprintf("i%d", len(w.itxIDs)+1), Typ: typ, Peer: peer, OK: true, Sig: sigok}
	w.itxIDs[k] = inf
	return *inf
}

func safeVerifyItx(t *hg.InternalTransaction) (ok bool) {
	defer func() {
		if r := recover(); r != nil {
			ok = false
		}
	}()
	v, err := t.Verify()
	return v && err == nil
}

// SetItxPolicy fixes the application's answer for an internal transaction.
func (w *World) SetItxPolicy(t *hg.InternalTransaction, accept bool) ItxInfo {
	inf := w.ItxInfoOf(t)
	p := w.itxIDs[itxKey(t)]
	p.OK = accept
	inf.OK = accept
	return inf
}

// ---------------------------------------------------------------- events

func sigRank(sig string) [2]int {
	r, _, err := keys.DecodeSignature(sig)
	if err != nil || r == nil {
		return [2]int{0, 0}
	}
	// top 30 bits and next 30 bits of R as a 256-bit number
	x := new(big.Int).Set(r)
	hi := new(big.Int).Rsh(x, 256-30)
	mid := new(big.Int).Rsh(x, 256-60)
	mid.And(mid, big.NewInt((1<<30)-1))
	return [2]int{int(hi.Int64()), int(mid.Int64())}
}

// Register records an event in the driver's DAG (parents must be registered
// or absent); returns its info and whether it is new.
func (w *World) Register(ev *hg.Event) (*EvInfo, bool) {
	h := ev.Hex()
	if inf, ok := w.events[h]; ok {
		return inf, false
	}
	cp := w.PartByPub(ev.Creator())
	c := 0
	if cp != nil {
		c = cp.Num
	}
	inf := &EvInfo{C: c, I: ev.Index(), Hash: h, Ev: ev, TS: ev.Timestamp(), Seq: len(w.events)}
	if sp := ev.SelfParent(); sp != "" {
		if p, ok := w.events[sp]; ok {
			inf.SP = p.ID
		} else {
			inf.SP = "?" + short(sp)
		}
	}
	if op := ev.OtherParent(); op != "" {
		if p, ok := w.events[op]; ok {
			inf.OP = p.ID
		} else {
			inf.OP = "?" + short(op)
		}
	}
	inf.Txs = []string{}
	for _, t := range ev.Transactions() {
		inf.Txs = append(inf.Txs, w.TxID(t))
	}
	inf.Itxs = []ItxInfo{}
	for i := range ev.InternalTransactions() {
		t := ev.InternalTransactions()[i]
		inf.Itxs = append(inf.Itxs, w.ItxInfoOf(&t))
	}
	inf.Sigs = []SigInfo{}
	for _, bs := range ev.BlockSignatures() {
		inf.Sigs = append(inf.Sigs, SigInfo{Blk: bs.Index, Q: w.ClassifySig(bs)})
	}
	inf.SR = sigRank(ev.Signature)
	inf.Mid = hg.VMiddleBit(h)
	inf.OK = safeVerifyEvent(ev)
	// id: c<creator>.<index>, with a suffix for equivocations
	id := fmt.Sprintf("c%d.%d", c, inf.I)
	if _, dup := w.byID[id]; dup {
		for k := 2; ; k++ {
			id2 := fmt.Sprintf("c%d.%df%d", c, inf.I, k)
			if _, d := w.byID[id2]; !d {
				id = id2
				break
			}
		}
	}
	inf.ID = id
	w.events[h] = inf
	w.byID[id] = inf
	return inf, true
}

func safeVerifyEvent(ev *hg.Event) (ok bool) {
	defer func() {
		if r := recover(); r != nil {
			ok = false
		}
	}()
	// signature of the event body only (internal transactions are logged separately)
	pub := keys.ToPublicKey(ev.Body.Creator)
	if pub == nil || pub.X == nil {
		return false
	}
	h, err := ev.Body.Hash()
	if err != nil {
		return false
	}
	r, s, err := keys.DecodeSignature(ev.Signature)
	if err != nil || r == nil || s == nil {
		return false
	}
	return keys.Verify(pub, h, r, s)
}

func short(h string) string {
	if len(h) > 10 {
		return h[2:10]
	}
	return h
}

// ClassifySig classifies a block signature against the honest bodies seen so
// far for that block index, using the driver's own verification.
func (w *World) ClassifySig(bs hg.BlockSignature) (q string) {
	defer func() {
		if r := recover(); r != nil {
			q = "mal"
		}
	}()
	r, s, err := keys.DecodeSignature(bs.Signature)
	if err != nil || r == nil || s == nil {
		return "mal"
	}
	pub := keys.ToPublicKey(bs.Validator)
	if pub == nil || pub.X == nil {
		return "mal"
	}
	for _, body := range w.bodies[bs.Index] {
		if keys.Verify(pub, body, r, s) {
			return "good"
		}
	}
	return "bad"
}

func (w *World) NoteBody(idx int, bodyHash []byte) {
	for _, b := range w.bodies[idx] {
		if string(b) == string(bodyHash) {
			return
		}
	}
	w.bodies[idx] = append(w.bodies[idx], bodyHash)
}

// RelTS maps an int64 timestamp into TLC's 32-bit integer range: exact offset
// from the trace base when small, an order-preserving marker when huge.
func (w *World) RelTS(ts int64) (v int, big bool) {
	d := ts - w.tsBase
	if w.tsBase > 0 && ts < math.MinInt64+w.tsBase {
		d = math.MinInt64 // (the subtraction would wrap around to a huge positive value)
	} else if w.tsBase < 0 && ts > math.MaxInt64+w.tsBase {
		d = math.MaxInt64
	}
	const lim = 1 << 28
	if d > -lim && d < lim {
		return int(d), false
	}
	// order-preserving compression of the rest: keep sign and top bits
	if d > 0 {
		return lim + int(d>>36), true
	}
	return -lim - int((-(d + 1))>>36) - 1, true
}

// ---------------------------------------------------------------- trace output

func (w *World) OpenTrace(path string) {
	f, err := os.Create(path)
	if err != nil {
		panic(err)
	}
	w.outF = f
	w.out = bufio.NewWriterSize(f, 1<<20)
}

func (w *World) CloseTrace() {
	if w.out != nil {
		w.out.Flush()
		w.outF.Close()
	}
}

// Emit writes one trace line.
func (w *World) Emit(node int, action string, x, o map[string]interface{}) {
	if w.out == nil {
		return // muted (a run whose steps are not part of the trace)
	}
	w.seq++
	w.lines++
	if x == nil {
		x = map[string]interface{}{"_": 0}
	}
	if o == nil {
		o = map[string]interface{}{"_": 0}
	}
	if len(x) == 0 {
		x["_"] = 0
	}
	if len(o) == 0 {
		o["_"] = 0
	}
	line := map[string]interface{}{"t": w.traceNo, "s": w.seq, "n": node, "a": action, "x": x, "o": o}
	b, err := json.Marshal(line)
	if err != nil {
		panic(err)
	}
	w.out.Write(b)
	w.out.WriteByte('\n')
}

func (w *World) EmitCreate(inf *EvInfo) {
	ts, big := w.RelTS(inf.TS)
	itxs := []interface{}{}
	for _, t := range inf.Itxs {
		itxs = append(itxs, t)
	}
	sigs := []interface{}{}
	for _, s := range inf.Sigs {
		sigs = append(sigs, s)
	}
	w.Emit(inf.C, "Create", map[string]interface{}{
		"id": inf.ID, "c": inf.C, "i": inf.I, "sp": inf.SP, "op": inf.OP,
		"txs": inf.Txs, "itxs": itxs, "sigs": sigs, "ts": ts, "big": big,
		"sr": []int{inf.SR[0], inf.SR[1]}, "mid": inf.Mid, "ok": inf.OK,
	}, nil)
}

func digest(parts ...[]byte) string {
	h := sha256.New()
	for _, p := range parts {
		h.Write(p)
		h.Write([]byte{0xff, 0x00})
	}
	return hex.EncodeToString(h.Sum(nil))[:16]
}

func sortedKeysU32(m map[uint32]int) []uint32 {
	ks := []uint32{}
	for k := range m {
		ks = append(ks, k)
	}
	sort.Slice(ks, func(i, j int) bool { return ks[i] < ks[j] })
	return ks
}
