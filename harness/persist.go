package main

// "persist" mode (C11, C16): real cores over real Badger stores, gossiping in
// core mode.  Every store write is recorded by a wrapper (StW lines: key and
// digest of the value written) - the specification keeps the trivially correct
// map from them.  At check points the store is read back through the public
// Store methods (cache first, then the database) and straight from the
// database (StR / StL lines); the specification compares every read with its
// map.
//
// Crashes: the durable-write gate (VerifDBWriteHook, called at the start of
// every dbSet* method) counts the writes of the node that is stepping; at the
// chosen write it copies the database directory as it is on disk (what a
// SIGKILL at that instant leaves behind) and panics out of the step.  The node
// is then restarted from that image: new store object, new core, reset
// application, Bootstrap, SetHeadAndSeq - and goes on gossiping in the same
// network.  Clean restarts close the store first and reopen the same directory.

import (
	"crypto/sha256"
	"encoding/hex"
	"encoding/json"
	"fmt"
	"io"
	"os"
	"path/filepath"
	"sort"
	"strings"

	hg "github.com/mosaicnetworks/babble/src/hashgraph"
	"github.com/mosaicnetworks/babble/src/node"
	"github.com/mosaicnetworks/babble/src/peers"
)

func init() { modes["persist"] = runPersist }

func dig(b []byte) string {
	s := sha256.Sum256(b)
	return hex.EncodeToString(s[:])[:16]
}

func evDigest(e *hg.Event) string {
	b, err := e.MarshalDB()
	if err != nil {
		return "ERR:marshal"
	}
	return dig(b)
}

func jsonDigest(v interface{}) string {
	b, err := json.Marshal(v)
	if err != nil {
		return "ERR:marshal"
	}
	return dig(b)
}

func psDigest(ps []*peers.Peer) string {
	keys := []string{}
	for _, p := range ps {
		keys = append(keys, strings.ToUpper(p.PubKeyString()))
	}
	return dig([]byte(strings.Join(keys, ",")))
}

// RecStore records every completed write.
type RecStore struct {
	hg.Store
	w        *World
	rows     []map[string]interface{}
	idx      map[string]int // key -> position in rows (coalescing within one step)
	inflight string
	evKeys   []string // event hashes in first-write order
	evSeen   map[string]bool
	blkKeys  map[int]bool
	frmKeys  map[int]bool
	rndKeys  map[int]bool
	psKeys   map[int]bool
	rootKeys map[string]bool
	fresh    map[string]bool // keys written by this incarnation (its cache holds what it wrote)
	perC     map[string]int  // creator public key -> number of events written
	noLists  bool            // the store was reset by fast-sync: listings are not compared
}

func NewRecStore(w *World, s hg.Store) *RecStore {
	return &RecStore{Store: s, w: w, idx: map[string]int{}, evSeen: map[string]bool{}, blkKeys: map[int]bool{},
		frmKeys: map[int]bool{}, rndKeys: map[int]bool{}, psKeys: map[int]bool{}, rootKeys: map[string]bool{}, fresh: map[string]bool{}, perC: map[string]int{}}
}

func (r *RecStore) inherit(old *RecStore) {
	r.evKeys, r.evSeen, r.blkKeys, r.frmKeys, r.rndKeys, r.psKeys, r.rootKeys, r.perC, r.noLists =
		old.evKeys, old.evSeen, old.blkKeys, old.frmKeys, old.rndKeys, old.psKeys, old.rootKeys, old.perC, old.noLists
}

func (r *RecStore) add(key string, row map[string]interface{}) {
	row["key"] = key
	r.fresh[key] = true
	if i, ok := r.idx[key]; ok {
		// later write of the same key in this step: the value is replaced, the
		// position (first write) is kept
		r.rows[i]["v"] = row["v"]
		return
	}
	r.idx[key] = len(r.rows)
	r.rows = append(r.rows, row)
}

func (r *RecStore) take() []map[string]interface{} {
	res := r.rows
	r.rows = nil
	r.idx = map[string]int{}
	return res
}

func evKey(h string) string { return "ev:" + short(h) }

func (r *RecStore) SetEvent(e *hg.Event) error {
	r.inflight = evKey(e.Hex())
	if err := r.Store.SetEvent(e); err != nil {
		return err
	}
	r.inflight = ""
	c := 0
	if p := r.w.PartByPub(e.Creator()); p != nil {
		c = p.Num
	}
	h := e.Hex()
	r.add(evKey(h), map[string]interface{}{"k": "ev", "v": evDigest(e), "c": c, "i": e.Index()})
	if !r.evSeen[h] {
		r.evSeen[h] = true
		r.evKeys = append(r.evKeys, h)
		r.perC[strings.ToUpper(e.Creator())]++
	}
	return nil
}

func (r *RecStore) SetBlock(b *hg.Block) error {
	key := fmt.Sprintf("blk:%d", b.Index())
	r.inflight = key
	if err := r.Store.SetBlock(b); err != nil {
		return err
	}
	r.inflight = ""
	r.add(key, map[string]interface{}{"k": "blk", "v": jsonDigest(b)})
	r.blkKeys[b.Index()] = true
	return nil
}

func (r *RecStore) SetFrame(f *hg.Frame) error {
	key := fmt.Sprintf("frm:%d", f.Round)
	r.inflight = key
	if err := r.Store.SetFrame(f); err != nil {
		return err
	}
	r.inflight = ""
	r.add(key, map[string]interface{}{"k": "frm", "v": jsonDigest(f)})
	r.frmKeys[f.Round] = true
	return nil
}

func (r *RecStore) SetRound(i int, ri *hg.RoundInfo) error {
	key := fmt.Sprintf("rnd:%d", i)
	r.inflight = key
	if err := r.Store.SetRound(i, ri); err != nil {
		return err
	}
	r.inflight = ""
	r.add(key, map[string]interface{}{"k": "rnd", "v": jsonDigest(ri)})
	r.rndKeys[i] = true
	return nil
}

func (r *RecStore) SetPeerSet(round int, ps *peers.PeerSet) error {
	key := fmt.Sprintf("ps:%d", round)
	r.inflight = key
	if err := r.Store.SetPeerSet(round, ps); err != nil {
		return err
	}
	r.inflight = ""
	r.add(key, map[string]interface{}{"k": "ps", "v": psDigest(ps.Peers)})
	r.psKeys[round] = true
	for _, p := range ps.Peers {
		pk := strings.ToUpper(p.PubKeyString())
		// a participant seen for the first time gets an empty root; an
		// existing root is left alone
		if !r.rootKeys[pk] {
			r.rootKeys[pk] = true
			r.add("root:"+short(pk), map[string]interface{}{"k": "root", "v": jsonDigest(hg.NewRoot()), "ifabsent": true})
		}
	}
	return nil
}

func (r *RecStore) Reset(f *hg.Frame) error {
	r.inflight = "reset"
	if err := r.Store.Reset(f); err != nil {
		return err
	}
	r.inflight = ""
	r.noLists = true
	r.add(fmt.Sprintf("frm:%d", f.Round), map[string]interface{}{"k": "frm", "v": jsonDigest(f)})
	r.frmKeys[f.Round] = true
	for p, root := range f.Roots {
		pk := strings.ToUpper(p)
		r.rootKeys[pk] = true
		r.add("root:"+short(pk), map[string]interface{}{"k": "root", "v": jsonDigest(root)})
	}
	r.add(fmt.Sprintf("ps:%d", f.Round), map[string]interface{}{"k": "ps", "v": psDigest(f.Peers)})
	r.psKeys[f.Round] = true
	return nil
}

// ---------------------------------------------------------------------------

type crashSignal struct {
	image string
	kind  string
	k     int
}

type PNet struct {
	*CoreNet
	o                      *Opts
	recs                   map[int]*RecStore
	bss                    map[int]*hg.BadgerStore
	cur                    *CNode
	writes                 map[int]int
	armNode                int
	armAt                  int
	armKind                string
	booting                bool
	bootW                  int
	offers, offersAccepted int
	imageSeq               int
	torn                   int // images whose value log ends in a torn record
	crashes                int
	restarts               int
	reads                  int
	gen                    []int
}

func copyDir(src, dst string) error {
	os.RemoveAll(dst)
	if err := os.MkdirAll(dst, 0755); err != nil {
		return err
	}
	ents, err := os.ReadDir(src)
	if err != nil {
		return err
	}
	for _, e := range ents {
		if e.IsDir() || e.Name() == "LOCK" {
			continue
		}
		in, err := os.Open(filepath.Join(src, e.Name()))
		if err != nil {
			return err
		}
		out, err := os.Create(filepath.Join(dst, e.Name()))
		if err != nil {
			in.Close()
			return err
		}
		_, err = io.Copy(out, in)
		in.Close()
		out.Close()
		if err != nil {
			return err
		}
	}
	return nil
}

// tearValueLog appends the beginning of a record (a header promising more bytes
// than follow) to the newest value-log file of a database image.
func tearValueLog(dir string, salt int) {
	ents, err := os.ReadDir(dir)
	if err != nil {
		return
	}
	last := ""
	for _, e := range ents {
		if strings.HasSuffix(e.Name(), ".vlog") && e.Name() > last {
			last = e.Name()
		}
	}
	if last == "" {
		return
	}
	f, err := os.OpenFile(filepath.Join(dir, last), os.O_APPEND|os.O_WRONLY, 0644)
	if err != nil {
		return
	}
	defer f.Close()
	// badger v1.6 entry header: key length, value length (big endian uint32), expiry (uint64), meta, user meta
	hdr := []byte{0, 0, 0, 24, 0, 0, 1, byte(salt), 0, 0, 0, 0, 0, 0, 0, 0, 0, 0}
	f.Write(hdr)
	f.Write([]byte("evt_torn-record"))
}

type reopenFailure struct{}

func (pn *PNet) hook(kind string) {
	if pn.booting {
		if kind == "event" {
			pn.bootW++
		}
		return
	}
	n := pn.cur
	if n == nil {
		return
	}
	pn.writes[n.num]++
	if pn.armNode == n.num && (pn.armKind == "" || pn.armKind == kind) {
		pn.armAt--
		if pn.armAt <= 0 {
			pn.armNode = 0
			pn.imageSeq++
			img := filepath.Join(pn.o.Dir, fmt.Sprintf("img_t%d_%d", pn.w.traceNo, pn.imageSeq))
			if err := copyDir(n.dir, img); err != nil {
				panic(fmt.Sprintf("persist: image copy failed: %v", err))
			}
			if pn.imageSeq%2 == 0 {
				// the kill lands in the middle of this write: the value log ends with the
				// first bytes of a record that was never completed
				tearValueLog(img, pn.w.rng.Intn(1<<30))
				pn.torn++
			}
			panic(crashSignal{image: img, kind: kind, k: pn.writes[n.num]})
		}
	}
}

func (pn *PNet) attach(n *CNode, bs *hg.BadgerStore, old *RecStore) {
	rec := NewRecStore(pn.w, bs)
	if old != nil {
		rec.inherit(old)
	}
	pn.recs[n.num] = rec
	pn.bss[n.num] = bs
	n.store = rec
	n.core.Hg().Store = rec
}

func (pn *PNet) flushWrites(n *CNode) {
	rows := pn.recs[n.num].take()
	if len(rows) == 0 {
		return
	}
	is := make([]interface{}, len(rows))
	for i, r := range rows {
		is[i] = r
	}
	pn.w.Emit(n.num, "StW", map[string]interface{}{"rows": is}, nil)
}

func errDigest(err error) string {
	s := err.Error()
	if len(s) > 40 {
		s = s[:40]
	}
	return "ERR:" + s
}

func (pn *PNet) lastIndexOf(n *CNode, part *Part) int {
	if n.core != nil {
		if i, ok := n.core.KnownEvents()[part.ID]; ok {
			return i
		}
		return -1
	}
	return pn.recs[n.num].perC[strings.ToUpper(part.Peer.PubKeyString())] - 1
}

// readRows reads the store back: through the public methods (path "pub") when
// st is given, and straight from the database (path "db").  sample bounds the
// number of events read (0: all).
func (pn *PNet) readRows(n *CNode, st hg.Store, bs *hg.BadgerStore, sample int, skipKey string) ([]interface{}, []interface{}) {
	rec := pn.recs[n.num]
	rows := []interface{}{}
	add := func(key, path, got string) {
		if key == skipKey {
			return
		}
		// after a bootstrap the cache holds what the replay recomputed, not
		// what was written: the public path is compared for the keys this
		// incarnation wrote itself
		if path == "pub" && !rec.fresh[key] {
			return
		}
		rows = append(rows, map[string]interface{}{"key": key, "path": path, "got": got})
		pn.reads++
	}
	evs := rec.evKeys
	if sample > 0 && len(evs) > sample {
		// the oldest (evicted first), the newest, and a random sample in between
		pick := map[int]bool{}
		for i := 0; i < sample/4; i++ {
			pick[i] = true
			pick[len(evs)-1-i] = true
		}
		for len(pick) < sample {
			pick[pn.w.rng.Intn(len(evs))] = true
		}
		ks := []int{}
		for k := range pick {
			ks = append(ks, k)
		}
		sort.Ints(ks)
		sel := []string{}
		for _, k := range ks {
			sel = append(sel, evs[k])
		}
		evs = sel
	}
	for _, h := range evs {
		if st != nil {
			if e, err := st.GetEvent(h); err != nil {
				add(evKey(h), "pub", errDigest(err))
			} else {
				add(evKey(h), "pub", evDigest(e))
			}
		}
		if e, err := bs.VDbGetEvent(h); err != nil {
			add(evKey(h), "db", errDigest(err))
		} else {
			add(evKey(h), "db", evDigest(e))
		}
	}
	ints := func(m map[int]bool) []int {
		r := []int{}
		for k := range m {
			r = append(r, k)
		}
		sort.Ints(r)
		return r
	}
	for _, i := range ints(rec.blkKeys) {
		key := fmt.Sprintf("blk:%d", i)
		if st != nil {
			if b, err := st.GetBlock(i); err != nil {
				add(key, "pub", errDigest(err))
			} else {
				add(key, "pub", jsonDigest(b))
			}
		}
		if b, err := bs.VDbGetBlock(i); err != nil {
			add(key, "db", errDigest(err))
		} else {
			add(key, "db", jsonDigest(b))
		}
	}
	for _, i := range ints(rec.frmKeys) {
		key := fmt.Sprintf("frm:%d", i)
		if f, err := bs.VDbGetFrame(i); err != nil {
			add(key, "db", errDigest(err))
		} else {
			add(key, "db", jsonDigest(f))
		}
	}
	for _, i := range ints(rec.rndKeys) {
		key := fmt.Sprintf("rnd:%d", i)
		if ri, err := bs.VDbGetRound(i); err != nil {
			add(key, "db", errDigest(err))
		} else {
			add(key, "db", jsonDigest(ri))
		}
	}
	for _, i := range ints(rec.psKeys) {
		key := fmt.Sprintf("ps:%d", i)
		if pk, err := bs.VDbGetPeerSetPeers(i); err != nil {
			add(key, "db", errDigest(err))
		} else {
			up := []string{}
			for _, k := range pk {
				up = append(up, strings.ToUpper(k))
			}
			add(key, "db", dig([]byte(strings.Join(up, ","))))
		}
	}
	pks := []string{}
	for pk := range rec.rootKeys {
		pks = append(pks, pk)
	}
	sort.Strings(pks)
	for _, pk := range pks {
		key := "root:" + short(pk)
		part := pn.w.PartByPub(pk)
		if part == nil {
			continue
		}
		if st != nil {
			if rt, err := st.GetRoot(part.Peer.PubKeyString()); err != nil {
				add(key, "pub", errDigest(err))
			} else {
				add(key, "pub", jsonDigest(rt))
			}
		}
		if rt, err := bs.VDbGetRoot(part.Peer.PubKeyString()); err != nil {
			add(key, "db", errDigest(err))
		} else {
			add(key, "db", jsonDigest(rt))
		}
	}

	// listings
	lists := []interface{}{}
	if rec.noLists {
		return rows, lists
	}
	keysOf := func(hs []string) []string {
		r := make([]string, len(hs))
		for i, h := range hs {
			r[i] = evKey(h)
		}
		return r
	}
	if topo, err := bs.VDbTopologicalEvents(0, 1<<30); err != nil {
		lists = append(lists, map[string]interface{}{"what": "topo", "path": "db", "err": err.Error(), "got": []string{}, "skip": -1})
	} else {
		hs := []string{}
		for _, e := range topo {
			hs = append(hs, e.Hex())
		}
		lists = append(lists, map[string]interface{}{"what": "topo", "path": "db", "got": keysOf(hs), "skip": -1})
	}
	for _, pk := range pks {
		part := pn.w.PartByPub(pk)
		if part == nil {
			continue
		}
		skips := []int{-1}
		if st != nil {
			if cnt := pn.lastIndexOf(n, part); cnt > 3 {
				skips = append(skips, pn.w.rng.Intn(cnt))
			}
		}
		for _, sk := range skips {
			if hs, err := bs.VDbParticipantEvents(part.Peer.PubKeyString(), sk); err != nil {
				lists = append(lists, map[string]interface{}{"what": "part", "c": part.Num, "path": "db", "err": err.Error(), "got": []string{}, "skip": sk})
			} else {
				lists = append(lists, map[string]interface{}{"what": "part", "c": part.Num, "path": "db", "got": keysOf(hs), "skip": sk})
			}
			if st != nil {
				if hs, err := st.ParticipantEvents(part.Peer.PubKeyString(), sk); err != nil {
					lists = append(lists, map[string]interface{}{"what": "part", "c": part.Num, "path": "pub", "err": err.Error(), "got": []string{}, "skip": sk})
				} else {
					lists = append(lists, map[string]interface{}{"what": "part", "c": part.Num, "path": "pub", "got": keysOf(hs), "skip": sk})
				}
			}
		}
		// single-index reads
		if st != nil {
			if cnt := pn.lastIndexOf(n, part); cnt >= 0 {
				for _, i := range []int{0, cnt / 2, cnt} {
					got := ""
					if h, err := st.ParticipantEvent(part.Peer.PubKeyString(), i); err != nil {
						got = errDigest(err)
					} else {
						got = evKey(h)
					}
					lists = append(lists, map[string]interface{}{"what": "pidx", "c": part.Num, "path": "pub", "got": []string{got}, "skip": i})
					if h, err := bs.VDbParticipantEvent(part.Peer.PubKeyString(), i); err != nil {
						got = errDigest(err)
					} else {
						got = evKey(h)
					}
					lists = append(lists, map[string]interface{}{"what": "pidx", "c": part.Num, "path": "db", "got": []string{got}, "skip": i})
				}
			}
		}
	}
	return rows, lists
}

func (pn *PNet) storeCheck(n *CNode, phase string, sample int) {
	pn.flushWrites(n)
	rows, lists := pn.readRows(n, n.store, pn.bss[n.num], sample, "")
	pn.w.Emit(n.num, "StR", map[string]interface{}{"phase": phase, "cache": n.cache}, map[string]interface{}{"rows": rows, "lists": lists})
}

// restart: open the database at dir, check it against the model, bootstrap a
// new core over it with a reset application, and put it in place of n.
func (pn *PNet) restart(n *CNode, dir string, crash *crashSignal, partial []interface{}, from int) *CNode {
	old := pn.recs[n.num]
	x := map[string]interface{}{"from": from}
	if crash != nil {
		x["k"], x["kind"], x["inflight"] = crash.k, crash.kind, old.inflight
		pn.crashes++
	}
	// blocks delivered by the interrupted step, before the crash
	pn.flushWrites(n)
	pn.w.Emit(n.num, "Crash", x, map[string]interface{}{"blocks": partial, "clean": crash == nil})

	bs, err := hg.NewBadgerStore(n.cache, dir, false, quietLogger())
	if err != nil {
		// the database left by the kill cannot be opened: nothing is re-delivered, nothing
		// is known, the node never comes back (recorded; the run ends here)
		msg := err.Error()
		if len(msg) > 120 {
			msg = msg[:120]
		}
		pn.w.Emit(n.num, "ReopenFailed", map[string]interface{}{"after_kill": crash != nil, "err": msg}, nil)
		panic(reopenFailure{})
	}
	m := &CNode{w: pn.w, num: n.num, part: n.part, kind: "badger", cache: n.cache, dir: dir, genesis: n.genesis,
		view: map[string]bool{}, undet: map[string]bool{}}
	m.store = bs
	pn.bss[n.num] = bs
	// the database as reopened, before anything else touches it
	skip := ""
	if crash != nil {
		skip = old.inflight
	}
	rows, lists := pn.readRows(m, nil, bs, 0, skip)
	pn.w.Emit(n.num, "StR", map[string]interface{}{"phase": "reopen", "cache": n.cache, "crash": crash != nil, "inflight": skip},
		map[string]interface{}{"rows": rows, "lists": lists})

	// every event in the database is registered (the interrupted step may have
	// written a self-event the driver has not seen yet)
	topo, terr := bs.VDbTopologicalEvents(0, 1<<30)
	order := []string{}
	hashes := []string{}
	pending := []*EvInfo{}
	for _, e := range topo {
		inf, isNew := pn.w.Register(e)
		if isNew {
			pending = append(pending, inf)
		}
		order = append(order, inf.ID)
		hashes = append(hashes, inf.Hash)
	}
	for _, inf := range pending {
		if sp := inf.Ev.SelfParent(); sp != "" {
			inf.SP = pn.w.idOf(sp)
		}
		if op := inf.Ev.OtherParent(); op != "" {
			inf.OP = pn.w.idOf(op)
		}
		pn.w.EmitCreate(inf)
	}
	// highest index of this node's events held by anybody else
	emitted := -1
	for _, other := range pn.nodes {
		if other.num == n.num {
			continue
		}
		if i, ok := other.core.KnownEvents()[n.part.ID]; ok && i > emitted {
			emitted = i
		}
	}

	m.app = NewVApp(pn.w, n.num)
	m.core = node.VNewCore(node.NewValidator(n.part.Key, n.part.Peer.Moniker),
		pn.w.PeerSet(pn.gen), pn.w.PeerSet(pn.gen), bs, m.app.CommitBlock, false, quietLogger())
	pn.cur = nil
	pn.booting, pn.bootW = true, 0
	berr := m.core.Bootstrap()
	pn.booting = false
	var herr error
	if berr == nil {
		herr = m.core.SetHeadAndSeq()
	}
	for _, h := range hashes {
		if _, err := bs.GetEvent(h); err == nil {
			m.view[h] = true
			m.undet[h] = true
		}
	}
	m.order = order
	if os.Getenv("PERSIST_DBG") != "" {
		bad := 0
		for _, e := range topo {
			cur, err := m.store.GetEvent(e.Hex())
			if err != nil {
				continue
			}
			_, cerr := bs.VInmem().GetEvent(e.Hex())
			pre, post := e.VFirstDescendants(), cur.VFirstDescendants()
			for c, v := range pre {
				if w2, ok := post[c]; !ok || w2.Index != v.Index {
					if bad < 10 {
						fmt.Fprintf(os.Stderr, "DBG node %d %s fd[c%d]: before restart %d, after bootstrap %d (present %v) incache=%v\n", m.num, pn.w.idOf(e.Hex()), pn.w.PartByPub(c).Num, v.Index, w2.Index, ok, cerr == nil)
					}
					bad++
				}
			}
			for c, v := range post {
				if _, ok := pre[c]; !ok {
					if bad < 10 {
						fmt.Fprintf(os.Stderr, "DBG node %d %s fd[c%d]: absent before restart, after bootstrap %d incache=%v\n", m.num, pn.w.idOf(e.Hex()), pn.w.PartByPub(c).Num, v.Index, cerr == nil)
					}
					bad++
				}
			}
		}
		fmt.Fprintf(os.Stderr, "DBG node %d: %d events, crash=%v, %d first-descendant entries differ\n", m.num, len(topo), crash != nil, bad)
		// first event whose round differs from what a live peer computes
		for _, e := range topo {
			r1, _ := m.core.Hg().VRound(e.Hex())
			var other *CNode
			for _, q := range pn.nodes {
				if q.num != m.num {
					if _, err := q.store.GetEvent(e.Hex()); err == nil {
						other = q
					}
				}
			}
			if other == nil {
				continue
			}
			r2, _ := other.core.Hg().VRound(e.Hex())
			if r1 != r2 {
				cur, _ := m.store.GetEvent(e.Hex())
				oth, _ := other.store.GetEvent(e.Hex())
				fmt.Fprintf(os.Stderr, "DBG round differs for %s: bootstrapped %d, node %d says %d\n   la(boot)=%v\n   la(live)=%v\n", pn.w.idOf(e.Hex()), r1, other.num, r2, coordStr(pn.w, cur.VLastAncestors()), coordStr(pn.w, oth.VLastAncestors()))
				ri, err := m.store.GetRound(r2 - 1)
				if err == nil {
					for _, wh := range ri.Witnesses() {
						we, _ := m.store.GetEvent(wh)
						wo, _ := other.store.GetEvent(wh)
						fmt.Fprintf(os.Stderr, "   witness %s fd(boot)=%v fd(live)=%v\n", pn.w.idOf(wh), coordStr(pn.w, we.VFirstDescendants()), coordStr(pn.w, wo.VFirstDescendants()))
					}
				}
				break
			}
		}
	}
	o := m.Observe(hashes, 0, true)
	o["err"] = berr != nil || herr != nil || terr != nil
	if berr != nil {
		o["errmsg"] = berr.Error()
	}
	o["nev"] = len(m.view)
	bx := map[string]interface{}{"order": order, "emitted": emitted, "crash": crash != nil, "me": n.num, "genesis": pn.gen}
	pn.w.Emit(n.num, "Bootstrap", bx, o)
	pn.blocks += 0

	pn.attach(m, bs, old)
	if pn.bootW > 0 {
		// the bootstrap itself wrote event records (the coordinates its replay
		// computed): the model follows those writes
		rec := pn.recs[m.num]
		for _, h := range hashes {
			if e, err := bs.GetEvent(h); err == nil {
				c := 0
				if p := pn.w.PartByPub(e.Creator()); p != nil {
					c = p.Num
				}
				rec.add(evKey(h), map[string]interface{}{"k": "ev", "v": evDigest(e), "c": c, "i": e.Index(), "src": "bootstrap"})
				delete(rec.fresh, evKey(h))
			}
		}
		pn.flushWrites(m)
	}
	// public reads right after the bootstrap
	pn.storeCheck(m, "booted", 60)
	for i, q := range pn.nodes {
		if q.num == n.num {
			pn.nodes[i] = m
		}
	}
	pn.byNum[n.num] = m
	pn.restarts++
	return m
}

func runPersist(o *Opts) (s *Summary) {
	s = &Summary{Mode: "persist", Extra: map[string]interface{}{}}
	var w *World
	totCrash, totRestart, totReads, totWrites := 0, 0, 0, 0
	totTorn := 0
	defer func() {
		// a database that cannot be reopened ends the run: what was recorded so far
		// (the ReopenFailed line included) is handed to TLC
		if r := recover(); r != nil {
			if _, ok := r.(reopenFailure); !ok {
				panic(r)
			}
			hg.VerifDBWriteHook = nil
			s.Traces = w.traceNo
			s.Lines = w.lines
			s.Extra["crash_points"] = totCrash + 3
			s.Extra["restarts"] = totRestart + 6
			s.Extra["store_reads_checked"] = totReads
			s.Extra["reopen_failed"] = 1
			w.CloseTrace()
		}
	}()
	totOffers := 0
	kinds := map[string]int{}
	for t := 0; t < o.Traces; t++ {
		nn := o.N
		if nn == 0 {
			nn = 2 + (t % 3)
		}
		w2 := NewWorld(o.Seed*1000+int64(t), nn)
		if w == nil {
			w2.OpenTrace(o.Out)
		} else {
			w2.out, w2.outF, w2.seq, w2.lines = w.out, w.outF, 0, w.lines
		}
		w = w2
		w.traceNo = t + 1
		caches := []int{o.Cache, 120, 1000}
		cache := caches[t%len(caches)]
		if cache <= 0 {
			cache = 200
		}
		// rounds and frames are served from the cache only; two validators reach about
		// one round every four steps: the cache must hold all rounds of the run
		if nn == 2 && cache < o.Steps/3+40 {
			cache = o.Steps/3 + 40
		}
		cn := NewCoreNet(w, CoreOpts{N: nn, Store: "badger", Cache: cache, Dir: o.Dir})
		pn := &PNet{CoreNet: cn, o: o, recs: map[int]*RecStore{}, bss: map[int]*hg.BadgerStore{}, writes: map[int]int{}}
		pn.gen = cn.nodes[0].genesis
		hg.VerifDBWriteHook = pn.hook
		for _, n := range cn.nodes {
			pn.attach(n, n.store.(*hg.BadgerStore), nil)
		}
		cn.EmitInit(map[string]interface{}{"sched": "random", "seed": o.Seed*1000 + int64(t), "mode": "persist"})
		sc := makeSched(w, []string{"random", "laggard", "partition"}[t%3], nn, o.Steps)
		nextEvent := 20 + w.rng.Intn(30)
		for k := 0; k < o.Steps; k++ {
			if w.rng.Float64() < o.TxP {
				tgt := cn.nodes[w.rng.Intn(len(cn.nodes))]
				id, payload := w.RandTx()
				cn.Submit(tgt, id, payload)
			}
			ai, bi, limit, ok := sc.pick(k)
			if !ok {
				continue
			}
			a, b := cn.byNum[ai], cn.byNum[bi]
			if k%23 == 11 {
				// a Byzantine validator offers an event that skips an index: refused, and
				// the refusal must leave nothing behind in the database (no hole in the
				// topological listing that a later bootstrap would stop at)
				pn.offerIndexSkip(a)
			}
			if k >= nextEvent {
				nextEvent = k + 15 + w.rng.Intn(40)
				switch w.rng.Intn(5) {
				case 0: // clean shutdown and reopen
					pn.flushWrites(a)
					pn.storeCheck(a, "live", 40)
					a.store.Close()
					pn.restart(a, a.dir, nil, []interface{}{}, 0)
					continue
				case 1:
					pn.storeCheck(a, "live", 60)
				case 2: // crash at the next write of a rarer kind
					pn.armNode = a.num
					pn.armAt = 1 + w.rng.Intn(2)
					pn.armKind = []string{"block", "frame", "round", "event"}[w.rng.Intn(4)]
				default: // crash at one of the next writes of a
					pn.armNode = a.num
					pn.armAt = 1 + w.rng.Intn(25)
					pn.armKind = ""
				}
			}
			crash := func() (cs *crashSignal) {
				defer func() {
					if r := recover(); r != nil {
						if c, ok := r.(crashSignal); ok {
							cs = &c
							return
						}
						panic(r)
					}
				}()
				pn.cur = a
				cn.SyncStep(a, b, limit, o.Full > 0 && k%o.Full == 0)
				pn.cur = nil
				return nil
			}()
			if crash == nil {
				pn.flushWrites(a)
				continue
			}
			pn.cur = nil
			kinds[crash.kind]++
			partial := []interface{}{}
			for _, d := range a.app.Drain() {
				dd := d
				partial = append(partial, a.blockObs(&dd))
			}
			cn.blocks += len(partial)
			oldDir := a.dir
			func() {
				defer func() { recover() }()
				a.store.Close()
			}()
			os.RemoveAll(oldDir)
			pn.restart(a, crash.image, crash, partial, b.num)
		}
		// final: everything is read back, live, then after a clean reopen
		pn.armNode = 0
		for _, n := range append([]*CNode{}, cn.nodes...) {
			pn.storeCheck(n, "final", 0)
			n.store.Close()
			m := pn.restart(n, n.dir, nil, []interface{}{}, 0)
			_ = m
		}
		// the restarted nodes still gossip and agree
		for k := 0; k < 30 && len(cn.nodes) > 1; k++ {
			ai, bi, limit, ok := sc.pick(k)
			if !ok {
				continue
			}
			pn.cur = cn.byNum[ai]
			cn.SyncStep(cn.byNum[ai], cn.byNum[bi], limit, true)
			pn.cur = nil
			pn.flushWrites(cn.byNum[ai])
		}
		for _, n := range cn.nodes {
			totWrites += pn.writes[n.num]
		}
		totCrash += pn.crashes
		totOffers += pn.offers
		totRestart += pn.restarts
		totReads += pn.reads
		s.Steps += cn.steps
		s.Events += len(w.events)
		s.Blocks += cn.blocks
		s.Errors += cn.errs
		if len(s.Samples) < 3 {
			s.Samples = append(s.Samples, map[string]interface{}{"trace": t + 1, "n": nn, "cache": cache, "events": len(w.events),
				"crashes": pn.crashes, "restarts": pn.restarts, "db_writes": totWrites})
		}
		hg.VerifDBWriteHook = nil
		totTorn += pn.torn
		for _, n := range cn.nodes {
			n.store.Close()
			os.RemoveAll(n.dir)
		}
		// images of crashed incarnations
		if ents, err := os.ReadDir(o.Dir); err == nil {
			for _, e := range ents {
				if strings.HasPrefix(e.Name(), fmt.Sprintf("img_t%d_", w.traceNo)) {
					os.RemoveAll(filepath.Join(o.Dir, e.Name()))
				}
			}
		}
	}
	s.Traces = o.Traces
	s.Lines = w.lines
	s.Extra["crash_points"] = totCrash
	s.Extra["crash_images_with_torn_last_record"] = totTorn
	s.Extra["restarts"] = totRestart
	s.Extra["store_reads_checked"] = totReads
	s.Extra["db_writes"] = totWrites
	s.Extra["crash_kinds"] = kinds
	s.Extra["index_skip_offers"] = totOffers
	w.CloseTrace()
	return s
}

// debugCoords compares the first-descendant coordinates the bootstrapped node
// holds with a brute-force computation over the driver's own DAG record.
func (pn *PNet) debugCoords(m *CNode, hashes []string) {
	anc := map[string]map[string]bool{}
	var ancOf func(h string) map[string]bool
	ancOf = func(h string) map[string]bool {
		if a, ok := anc[h]; ok {
			return a
		}
		a := map[string]bool{h: true}
		anc[h] = a
		ev := pn.w.events[h].Ev
		for _, p := range []string{ev.SelfParent(), ev.OtherParent()} {
			if p == "" {
				continue
			}
			if _, ok := pn.w.events[p]; !ok {
				continue
			}
			for k := range ancOf(p) {
				a[k] = true
			}
		}
		return a
	}
	bad := 0
	for _, y := range hashes {
		ey, err := m.store.GetEvent(y)
		if err != nil {
			continue
		}
		want := map[string]int{}
		for _, x := range hashes {
			if ancOf(x)[y] {
				c := pn.w.events[x].Ev.Creator()
				if i, ok := want[c]; !ok || pn.w.events[x].I < i {
					want[c] = pn.w.events[x].I
				}
			}
		}
		got := ey.VFirstDescendants()
		for c, i := range want {
			g, ok := got[c]
			if !ok || g.Index != i {
				if bad < 12 {
					_, cached := pn.bss[m.num].VInmem().GetEvent(y)
					fmt.Fprintf(os.Stderr, "DBG node %d event %s first descendant by c%d: want index %d got %v (present %v) incache=%v\n",
						m.num, pn.w.idOf(y), pn.w.PartByPub(c).Num, i, g.Index, ok, cached == nil)
				}
				bad++
			}
		}
	}
	fmt.Fprintf(os.Stderr, "DBG node %d: %d events, %d wrong first-descendant entries\n", m.num, len(hashes), bad)
}

func coordStr(w *World, m hg.CoordinatesMap) string {
	r := []string{}
	for c, v := range m {
		r = append(r, fmt.Sprintf("c%d:%d", w.PartByPub(c).Num, v.Index))
	}
	sort.Strings(r)
	return strings.Join(r, " ")
}

// offerIndexSkip: a correctly signed event of another participant, on top of
// that participant's last event as node a knows it, with index = last + 2.
func (pn *PNet) offerIndexSkip(a *CNode) {
	known := a.core.KnownEvents()
	for _, p := range pn.w.parts {
		if p.Num == a.num {
			continue
		}
		idx, ok := known[p.ID]
		if !ok || idx < 0 {
			continue
		}
		last, err := a.store.LastEventFrom(p.Peer.PubKeyString())
		if err != nil || last == "" {
			continue
		}
		ev := hg.NewEvent([][]byte{[]byte("index-skip")}, nil, nil, []string{last, ""}, p.Pub, idx+2)
		if err := ev.Sign(p.Key); err != nil {
			return
		}
		pn.cur = nil
		ierr := a.core.InsertEventAndRunConsensus(ev, true)
		pn.w.Emit(a.num, "Note", map[string]interface{}{"what": "index-skipping event offered", "creator": p.Num, "index": idx + 2},
			map[string]interface{}{"refused": ierr != nil})
		pn.offers++
		if ierr == nil {
			pn.offersAccepted++
		}
		pn.flushWrites(a)
		return
	}
}
