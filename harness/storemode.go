package main

// "store" mode (C16, direct operation sequences): the complete stream of store
// writes of a real gossip run (every SetEvent / SetRound / SetBlock / SetFrame /
// SetPeerSet with a deep copy of the value at that moment) is replayed into
// fresh Badger stores whose caches hold 1..50 entries, cut at arbitrary
// points, with reads interleaved; then everything is read back, the store is
// closed, reopened (empty cache) and read back again.  One variant ends with a
// fast-sync Reset from a recorded frame followed by a peer-set change.

import (
	"encoding/json"
	"fmt"
	"os"
	"path/filepath"
	"strings"

	hg "github.com/mosaicnetworks/babble/src/hashgraph"
	"github.com/mosaicnetworks/babble/src/peers"
)

func init() { modes["store"] = runStoreMode }

type tapOp struct {
	kind string
	ev   *hg.Event
	blk  *hg.Block
	frm  *hg.Frame
	rnd  *hg.RoundInfo
	r    int
	ps   *peers.PeerSet
}

type TapStore struct {
	hg.Store
	ops []tapOp
}

func copyEvent(e *hg.Event) *hg.Event {
	b, err := e.MarshalDB()
	if err != nil {
		panic(err)
	}
	c := new(hg.Event)
	if err := c.UnmarshalDB(b); err != nil {
		panic(err)
	}
	return c
}

func (t *TapStore) SetEvent(e *hg.Event) error {
	if err := t.Store.SetEvent(e); err != nil {
		return err
	}
	t.ops = append(t.ops, tapOp{kind: "ev", ev: copyEvent(e)})
	return nil
}
func (t *TapStore) SetBlock(b *hg.Block) error {
	if err := t.Store.SetBlock(b); err != nil {
		return err
	}
	raw, _ := json.Marshal(b)
	c := new(hg.Block)
	json.Unmarshal(raw, c)
	t.ops = append(t.ops, tapOp{kind: "blk", blk: c})
	return nil
}
func (t *TapStore) SetFrame(f *hg.Frame) error {
	if err := t.Store.SetFrame(f); err != nil {
		return err
	}
	raw, _ := json.Marshal(f)
	c := new(hg.Frame)
	json.Unmarshal(raw, c)
	t.ops = append(t.ops, tapOp{kind: "frm", frm: c})
	return nil
}
func (t *TapStore) SetRound(i int, ri *hg.RoundInfo) error {
	if err := t.Store.SetRound(i, ri); err != nil {
		return err
	}
	raw, _ := json.Marshal(ri)
	c := hg.NewRoundInfo()
	json.Unmarshal(raw, c)
	t.ops = append(t.ops, tapOp{kind: "rnd", rnd: c, r: i})
	return nil
}
func (t *TapStore) SetPeerSet(r int, ps *peers.PeerSet) error {
	if err := t.Store.SetPeerSet(r, ps); err != nil {
		return err
	}
	t.ops = append(t.ops, tapOp{kind: "ps", ps: peers.NewPeerSet(ps.Peers), r: r})
	return nil
}

// respell: the same peer-set with every second public key written in lower case
// (a spelling peers.json may use; the store indexes by the canonical form)
func respell(ps *peers.PeerSet) *peers.PeerSet {
	list := []*peers.Peer{}
	for i, p := range ps.Peers {
		if i%2 == 1 {
			list = append(list, peers.NewPeer(strings.ToLower(p.PubKeyHex), p.NetAddr, p.Moniker))
		} else {
			list = append(list, p)
		}
	}
	return peers.NewPeerSet(list)
}

func apply(st hg.Store, op tapOp) error {
	switch op.kind {
	case "ev":
		return st.SetEvent(op.ev)
	case "blk":
		return st.SetBlock(op.blk)
	case "frm":
		return st.SetFrame(op.frm)
	case "rnd":
		return st.SetRound(op.r, op.rnd)
	case "ps":
		return st.SetPeerSet(op.r, respell(op.ps))
	}
	return nil
}

func runStoreMode(o *Opts) *Summary {
	s := &Summary{Mode: "store", Extra: map[string]interface{}{}}
	var w *World
	seqs, totalOps, totalReads, resets, applyErrs := 0, 0, 0, 0, 0
	for t := 0; t < o.Traces; t++ {
		nn := 2 + t%3
		w2 := NewWorld(o.Seed*1000+int64(t), nn+1) // one spare participant for the late peer-set change
		if w == nil {
			w2.OpenTrace(o.Out)
		} else {
			w2.out, w2.outF, w2.seq, w2.lines = w.out, w.outF, 0, w.lines
		}
		w = w2
		w.traceNo = t + 1
		// 1. the real run whose write stream is recorded
		gen := []int{}
		for i := 1; i <= nn; i++ {
			gen = append(gen, i)
		}
		cn := NewCoreNet(w, CoreOpts{N: nn, Store: "inmem", Cache: 100000, Genesis: gen})
		tap := &TapStore{Store: cn.nodes[0].store}
		cn.nodes[0].store = tap
		cn.nodes[0].core.Hg().Store = tap
		// the genesis peer-set was written before the tap was in place
		tap.ops = append(tap.ops, tapOp{kind: "ps", ps: w.PeerSet(gen), r: 0})
		w.Emit(0, "Init", map[string]interface{}{"nc": len(w.parts), "genesis": gen, "nodes": []interface{}{}, "mode": "store",
			"seed": o.Seed*1000 + int64(t)}, nil)
		mute := w.out
		w.out = nil // the recording run itself is not part of this trace
		sc := makeSched(w, "random", nn, o.Steps)
		for k := 0; k < o.Steps; k++ {
			if w.rng.Float64() < 0.35 {
				id, payload := w.RandTx()
				cn.Submit(cn.nodes[w.rng.Intn(nn)], id, payload)
			}
			a, b, limit, ok := sc.pick(k)
			if !ok {
				continue
			}
			cn.SyncStep(cn.byNum[a], cn.byNum[b], limit, false)
		}
		w.out = mute
		ops := tap.ops
		frames := []*hg.Frame{}
		for _, op := range ops {
			if op.kind == "frm" && len(op.frm.Roots) > 0 {
				frames = append(frames, op.frm)
			}
		}
		// 2. replays
		pn := &PNet{CoreNet: &CoreNet{w: w}, o: o, recs: map[int]*RecStore{}, bss: map[int]*hg.BadgerStore{}, writes: map[int]int{}}
		caches := []int{1, 2, 3, 5, 10, 50}
		for q := 0; q < len(caches)+2; q++ {
			cache := caches[q%len(caches)]
			cut := len(ops)
			if q >= 2 {
				cut = len(ops)/3 + w.rng.Intn(2*len(ops)/3)
			}
			withReset := q%3 == 1 && len(frames) > 0
			num := q + 1
			dir := filepath.Join(o.Dir, fmt.Sprintf("st_t%d_q%d", w.traceNo, q))
			os.RemoveAll(dir)
			bs, err := hg.NewBadgerStore(cache, dir, false, quietLogger())
			if err != nil {
				panic(err)
			}
			rec := NewRecStore(w, bs)
			pn.recs[num], pn.bss[num] = rec, bs
			fake := &CNode{w: w, num: num, cache: cache, kind: "badger", dir: dir}
			fake.store = rec
			nextCheck := 30 + w.rng.Intn(60)
			for k := 0; k < cut; k++ {
				if err := apply(rec, ops[k]); err != nil {
					applyErrs++
					if os.Getenv("PERSIST_DBG") != "" {
						fmt.Fprintf(os.Stderr, "DBG cache=%d op %d %s: %v\n", cache, k, ops[k].kind, err)
					}
				}
				totalOps++
				if k == nextCheck {
					nextCheck = k + 40 + w.rng.Intn(120)
					pn.storeCheckN(fake, "live", 30, map[string]interface{}{"ops": k + 1})
				}
			}
			if withReset {
				fr := frames[w.rng.Intn(len(frames))]
				if err := rec.Reset(fr); err != nil {
					applyErrs++
				}
				// a membership change some rounds after the fast-sync
				ps := peers.NewPeerSet(fr.Peers).WithNewPeer(w.parts[nn].Peer)
				if err := rec.SetPeerSet(fr.Round+6, ps); err != nil {
					applyErrs++
				}
				resets++
			}
			pn.storeCheckN(fake, "final", 0, map[string]interface{}{"ops": cut, "reset": withReset})
			rec.Close()
			bs2, err := hg.NewBadgerStore(cache, dir, false, quietLogger())
			if err != nil {
				panic(err)
			}
			rec2 := NewRecStore(w, bs2)
			rec2.inherit(rec)
			// a reopened store has an empty cache: every public read goes to the database
			for k := range rec.fresh {
				rec2.fresh[k] = true
			}
			pn.recs[num], pn.bss[num] = rec2, bs2
			fake.store = rec2
			pn.storeCheckN(fake, "reopened", 0, map[string]interface{}{"ops": cut, "reset": withReset})
			rec2.Close()
			os.RemoveAll(dir)
			seqs++
		}
		totalReads += pn.reads
		s.Events += len(w.events)
		if len(s.Samples) < 3 {
			s.Samples = append(s.Samples, map[string]interface{}{"trace": t + 1, "n": nn, "write_stream": len(ops), "replays": len(caches) + 2, "frames_with_roots": len(frames)})
		}
	}
	s.Traces = o.Traces
	s.Lines = w.lines
	s.Steps = totalOps
	s.Extra["updates_refused_too_late"] = applyErrs // SetEvent of an event that left the tiny cache window is refused by the store (nothing written, error returned)
	s.Extra["op_sequences"] = seqs
	s.Extra["ops_applied"] = totalOps
	s.Extra["store_reads_checked"] = totalReads
	s.Extra["resets"] = resets
	s.Extra["crash_points"] = 0
	w.CloseTrace()
	return s
}

func (pn *PNet) storeCheckN(n *CNode, phase string, sample int, extra map[string]interface{}) {
	pn.flushWrites(n)
	rows, lists := pn.readRows(n, n.store, pn.bss[n.num], sample, "")
	x := map[string]interface{}{"phase": phase, "cache": n.cache}
	for k, v := range extra {
		x[k] = v
	}
	pn.w.Emit(n.num, "StR", x, map[string]interface{}{"rows": rows, "lists": lists})
}
