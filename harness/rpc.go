package main

// "rpc" mode (C08, C17): structurally valid RPC messages and responses whose
// fields are drawn from a hostile value grammar, delivered to real Nodes in
// every state; requests to nodes that are not babbling; the auto-suspend rule
// under runs without a quorum.

import (
	"fmt"
	"math"
	"sort"
	"strings"
	"time"

	hg "github.com/mosaicnetworks/babble/src/hashgraph"
	bnet "github.com/mosaicnetworks/babble/src/net"
	_state "github.com/mosaicnetworks/babble/src/node/state"
	"github.com/mosaicnetworks/babble/src/peers"
)

func init() { modes["rpc"] = runRPC }

var hostileStrings = []string{"", "0", "0X", "0x", "0XZ", "0X0", "zz", "0X04", "0X" + strings.Repeat("G", 130), strings.Repeat("A", 300), "\x00\xff", "0X04" + strings.Repeat("00", 64)}
var hostileInts = []int{-1, -2, 0, 1, math.MinInt32, math.MaxInt32, math.MinInt64, math.MaxInt64, 999999}
var hostileSigs = []string{"", "x", "|", "1|", "|1", "!!|??", "a|b|c", "zz|zz", "-1|-1", "0|0", strings.Repeat("9", 400) + "|1"}

type rpcCase struct {
	kind string // message class
	desc string
	cmd  interface{}
}

// hostileMessages builds the structured grammar around valid material taken from node src
func (vn *VNet) hostileMessages(victim, src *NNode) []rpcCase {
	w := vn.w
	cases := []rpcCase{}
	known := src.core.KnownEvents()
	// a valid batch of wire events the victim does not know yet (may be empty)
	diff, _ := src.core.EventDiff(victim.core.KnownEvents())
	if len(diff) > 3 {
		diff = diff[:3]
	}
	wire, _ := src.core.ToWire(diff)
	// --- SyncRequest
	for _, l := range hostileInts {
		cases = append(cases, rpcCase{"SyncRequest", fmt.Sprintf("limit=%d", l), &bnet.SyncRequest{FromID: src.part.ID, Known: known, SyncLimit: l}})
	}
	cases = append(cases, rpcCase{"SyncRequest", "known=nil", &bnet.SyncRequest{FromID: src.part.ID, Known: nil, SyncLimit: 10}})
	cases = append(cases, rpcCase{"SyncRequest", "from=unknown", &bnet.SyncRequest{FromID: 4242, Known: known, SyncLimit: 10}})
	for _, v := range hostileInts {
		k := map[uint32]int{}
		for id := range known {
			k[id] = v
		}
		k[777] = v
		cases = append(cases, rpcCase{"SyncRequest", fmt.Sprintf("known-index=%d", v), &bnet.SyncRequest{FromID: src.part.ID, Known: k, SyncLimit: 10}})
	}
	// --- EagerSyncRequest: each field of a wire event
	base := hg.WireEvent{Body: hg.WireBody{CreatorID: src.part.ID, Index: src.core.Seq() + 1, SelfParentIndex: src.core.Seq(), OtherParentIndex: -1}, Signature: "1|1"}
	if len(wire) > 0 {
		base = wire[0]
	}
	mut := func(desc string, f func(e *hg.WireEvent)) {
		e := base
		f(&e)
		cases = append(cases, rpcCase{"EagerSyncRequest", desc, &bnet.EagerSyncRequest{FromID: src.part.ID, Events: []hg.WireEvent{e}}})
	}
	cases = append(cases, rpcCase{"EagerSyncRequest", "events=nil", &bnet.EagerSyncRequest{FromID: src.part.ID, Events: nil}})
	cases = append(cases, rpcCase{"EagerSyncRequest", "from=unknown", &bnet.EagerSyncRequest{FromID: 4242, Events: wire}})
	for _, s := range hostileSigs {
		s := s
		mut("event-signature="+fmt.Sprintf("%.12q", s), func(e *hg.WireEvent) { e.Signature = s })
	}
	for _, v := range hostileInts {
		v := v
		mut(fmt.Sprintf("event-index=%d", v), func(e *hg.WireEvent) { e.Body.Index = v })
		mut(fmt.Sprintf("event-selfparentindex=%d", v), func(e *hg.WireEvent) { e.Body.SelfParentIndex = v })
		mut(fmt.Sprintf("event-otherparentindex=%d", v), func(e *hg.WireEvent) { e.Body.OtherParentIndex = v })
	}
	mut("event-creator=unknown", func(e *hg.WireEvent) { e.Body.CreatorID = 4242 })
	mut("event-otherparentcreator=unknown", func(e *hg.WireEvent) { e.Body.OtherParentCreatorID = 4242; e.Body.OtherParentIndex = 0 })
	mut("event-timestamp=min", func(e *hg.WireEvent) { e.Body.Timestamp = math.MinInt64 })
	mut("event-transactions=[nil]", func(e *hg.WireEvent) { e.Body.Transactions = [][]byte{nil} })
	mut("event-transactions=1MiB", func(e *hg.WireEvent) { e.Body.Transactions = [][]byte{make([]byte, 1<<20)} })
	for _, s := range hostileStrings {
		s := s
		mut("event-itx-pubkey="+fmt.Sprintf("%.10q", s), func(e *hg.WireEvent) {
			e.Body.InternalTransactions = []hg.InternalTransaction{{Body: hg.InternalTransactionBody{Type: hg.PEER_ADD, Peer: *peers.NewPeer(s, "a", "m")}, Signature: "1|1"}}
		})
	}
	for _, s := range hostileSigs {
		s := s
		mut("event-itx-signature="+fmt.Sprintf("%.10q", s), func(e *hg.WireEvent) {
			e.Body.InternalTransactions = []hg.InternalTransaction{{Body: hg.InternalTransactionBody{Type: hg.PEER_ADD, Peer: *peers.NewPeer(w.parts[len(w.parts)-1].PubHex, "a", "m")}, Signature: s}}
		})
		mut("event-blocksig-signature="+fmt.Sprintf("%.10q", s), func(e *hg.WireEvent) {
			e.Body.BlockSignatures = []hg.WireBlockSignature{{Index: 0, Signature: s}}
		})
	}
	for _, v := range hostileInts {
		v := v
		mut(fmt.Sprintf("event-blocksig-index=%d", v), func(e *hg.WireEvent) {
			e.Body.BlockSignatures = []hg.WireBlockSignature{{Index: v, Signature: "1|1"}}
		})
	}
	// --- JoinRequest
	st := w.parts[len(w.parts)-1]
	for _, s := range hostileStrings {
		t := hg.NewInternalTransactionJoin(*peers.NewPeer(s, "addr", "mon"))
		t.Signature = "1|1"
		cases = append(cases, rpcCase{"JoinRequest", "peer-pubkey=" + fmt.Sprintf("%.10q", s), &bnet.JoinRequest{InternalTransaction: t}})
	}
	for _, s := range hostileSigs {
		t := hg.NewInternalTransactionJoin(*peers.NewPeer(st.PubHex, "addr", "mon"))
		t.Signature = s
		cases = append(cases, rpcCase{"JoinRequest", "signature=" + fmt.Sprintf("%.10q", s), &bnet.JoinRequest{InternalTransaction: t}})
	}
	{
		t := hg.NewInternalTransactionJoin(*peers.NewPeer(st.PubHex, "addr", "mon"))
		t.Sign(w.parts[0].Key) // signed by somebody else
		cases = append(cases, rpcCase{"JoinRequest", "signed-by-other-key", &bnet.JoinRequest{InternalTransaction: t}})
	}
	// --- FastForwardRequest
	cases = append(cases, rpcCase{"FastForwardRequest", "from=unknown", &bnet.FastForwardRequest{FromID: 4242}})
	cases = append(cases, rpcCase{"FastForwardRequest", "from=0", &bnet.FastForwardRequest{FromID: 0}})
	return cases
}

// deliver one request through the node's own processRPC, catching what would
// have been a process crash
func (vn *VNet) deliverRPC(victim *NNode, c rpcCase) (resp interface{}, rerr error, panicked string, blocked bool) {
	ch := make(chan bnet.RPCResponse, 1)
	done := make(chan struct{})
	go func() {
		defer close(done)
		defer func() {
			if r := recover(); r != nil {
				panicked = fmt.Sprint(r)
			}
		}()
		victim.node.VProcessRPC(bnet.RPC{Command: wireCopy(c.cmd), RespChan: ch})
	}()
	// a join request that entered consensus blocks until the promise is answered;
	// any other handler that does not come back (generous limit: the machine may
	// be loaded) has wedged the node
	limit := 1500 * time.Millisecond
	if c.kind != "JoinRequest" {
		limit = 20 * time.Second
	}
	select {
	case <-done:
	case <-time.After(limit):
		return nil, nil, "", true
	}
	select {
	case r := <-ch:
		return r.Response, r.Error, panicked, false
	default:
		return nil, nil, panicked, false
	}
}

func (n *NNode) historyDigest() string {
	parts := []string{}
	for _, d := range n.app.log {
		parts = append(parts, fmt.Sprintf("%d:%x", d.Block.Index(), d.BodyHash))
	}
	st := []string{}
	for i := 0; i <= n.store.LastBlockIndex(); i++ {
		if b, err := n.store.GetBlock(i); err == nil {
			st = append(st, bodyDigest(b))
		}
	}
	return digest([]byte(strings.Join(parts, ",")), []byte(strings.Join(st, ",")))
}

// checkSyncResponse: a sync response is a correct difference of what the node knows
func (vn *VNet) checkSyncResponse(server *NNode, req *bnet.SyncRequest, resp *bnet.SyncResponse, ownLimit int) (ok bool, why string) {
	w := vn.w
	limit := req.SyncLimit
	if ownLimit < limit {
		limit = ownLimit
	}
	// expected: every event of the server's view above the requester's known index
	expected := map[string]bool{}
	for h := range server.view {
		inf := w.events[h]
		p := w.parts[inf.C-1]
		k, has := req.Known[p.ID]
		if !has {
			k = -1
		}
		if inf.I > k {
			expected[inf.ID] = true
		}
	}
	got := map[string]bool{}
	pos := map[string]int{}
	for i := range resp.Events {
		id := w.idOfWire(&resp.Events[i])
		if p := w.PartByID(resp.Events[i].Body.CreatorID); p != nil {
			if h, e := server.store.ParticipantEvent(p.PubHex, resp.Events[i].Body.Index); e == nil {
				if inf, ok := w.events[h]; ok {
					id = inf.ID
				}
			}
		}
		if got[id] {
			return false, "duplicate " + id
		}
		got[id] = true
		pos[id] = i
		if !expected[id] {
			return false, "unexpected " + id
		}
	}
	if len(expected) <= limit && len(got) != len(expected) {
		return false, fmt.Sprintf("incomplete: %d of %d", len(got), len(expected))
	}
	if len(expected) > limit && len(got) != limit {
		return false, fmt.Sprintf("truncation: %d events for limit %d", len(got), limit)
	}
	// parents precede children (among the events of the response), per-creator contiguity
	for id := range got {
		inf := w.byID[id]
		for _, pid := range []string{inf.SP, inf.OP} {
			if pid != "" && expected[pid] {
				if !got[pid] || pos[pid] > pos[id] {
					return false, "parent " + pid + " does not precede " + id
				}
			}
		}
	}
	// the known map of the response is the server's
	sk := server.core.KnownEvents()
	for id, v := range sk {
		if resp.Known[id] != v {
			return false, "known map differs"
		}
	}
	return true, ""
}

func runRPC(o *Opts) *Summary {
	s := &Summary{Mode: "rpc", Extra: map[string]interface{}{}}
	var w *World
	nmsgs, npanics, nstates, nheart := 0, 0, 0, 0
	classes := map[string]int{}
	for t := 0; t < o.Traces; t++ {
		n := o.N
		if n == 0 {
			n = 3 + t%3
		}
		w2 := NewWorld(o.Seed*1000+int64(t), n+2)
		if w == nil {
			w2.OpenTrace(o.Out)
		} else {
			w2.out, w2.outF, w2.lines = w.out, w.outF, w.lines
		}
		w = w2
		w.itxSeen = map[string]bool{}
		w.traceNo = t + 1
		w.tsBase = time.Now().Unix()
		vn := NewVNet(w)
		gen := []int{}
		for i := 1; i <= n; i++ {
			gen = append(gen, i)
		}
		limit := 8 + w.rng.Intn(6)
		for _, k := range gen {
			nd := vn.NewNode(w.parts[k-1], gen, gen, NodeOpts{Store: o.Store, Cache: o.Cache, Dir: o.Dir, SyncLimit: 40, SuspendLimit: limit})
			nd.node.Init()
			// every second trace: the application's state-change handler fails from now
			// on (unreachable socket client, failing callback); the node's own state
			// changes must not depend on it
			nd.app.failState = t%2 == 1
		}
		vn.EmitInit(map[string]interface{}{"sched": "rpc", "seed": o.Seed*1000 + int64(t), "nc": n + 2, "suspend_limit": limit, "app_state_handler_fails": t%2 == 1})
		// the driver plays the heartbeat: checkSuspend after every exchange
		autoSuspended := map[int]bool{}
		hb := func(nd *NNode) {
			// (a node that suspended itself stays suspended until it is restarted: the
			// driver may have forced its state back, its suspend channel is closed)
			if nd.State() != "Babbling" || autoSuspended[nd.num] {
				return
			}
			defer func() {
				if nd.State() == "Suspended" {
					autoSuspended[nd.num] = true
				}
			}()
			before := nd.State()
			undet := len(nd.core.Hg().UndeterminedEvents)
			func() {
				// (a second Suspend() of a node that did not change state closes a closed channel)
				defer func() {
					if r := recover(); r != nil {
						autoSuspended[nd.num] = true
					}
				}()
				nd.node.VCheckSuspend()
			}()
			lcr := nd.node.GetLastConsensusRoundIndex()
			w.Emit(nd.num, "Heartbeat", map[string]interface{}{"undet": undet, "initial": nd.node.VInitialUndeterminedEvents(),
				"limit": limit, "nvals": nd.core.Validators().Len(), "removedRound": nd.core.RemovedRound(),
				"acceptedRound": nd.core.AcceptedRound(), "lcr": lcr, "has_lcr": nd.core.Hg().LastConsensusRound != nil},
				map[string]interface{}{"before": before, "after": nd.State()})
			nheart++
		}
		gossip := func(steps int, who []*NNode) {
			for k := 0; k < steps; k++ {
				if w.rng.Float64() < o.TxP {
					tgt := who[w.rng.Intn(len(who))]
					if tgt.State() == "Babbling" {
						id, payload := w.RandTx()
						vn.Submit(tgt, id, payload)
					}
				}
				a := who[w.rng.Intn(len(who))]
				b := who[w.rng.Intn(len(who))]
				if a != b && a.State() == "Babbling" && b.State() == "Babbling" {
					vn.Gossip(a, b, true)
					hb(a)
					hb(b)
				}
			}
		}
		all := vn.nodes
		dead := map[int]bool{}
		abandon := false
		gossip(o.Steps/2, all)

		// ---- (A) hostile messages to a babbling node, each followed by a valid exchange
		victim, src := all[0], all[1]
		msgs := vn.hostileMessages(victim, src)
		take := 40
		if o.Arg == "all" {
			take = len(msgs)
		}
		off := (t * 37) % len(msgs)
		for q := 0; q < take && q < len(msgs); q++ {
			c := msgs[(off+q)%len(msgs)]
			if o.Arg != "all" {
				c = msgs[w.rng.Intn(len(msgs))]
			}
			before := victim.historyDigest()
			sb := victim.beforeSync()
			_, rerr, panicked, blocked := vn.deliverRPC(victim, c)
			// whatever was inserted is accounted for like a sync from nobody
			after := before
			if panicked == "" {
				// (a hostile push may still carry valid events - wrong sender, wrong
				// known map - that the node inserts before it refuses the rest)
				var wire []hg.WireEvent
				if es, ok := c.cmd.(*bnet.EagerSyncRequest); ok && es != nil {
					wire = es.Events
				}
				vn.hostile = true
				vn.afterSync(victim, 0, wire, nil, sb, true)
				vn.hostile = false
				after = victim.historyDigest()
			}
			// the next valid messages must still be processed
			okPull, okPush := true, true
			var sigErr error
			wedged := false
			if !blocked && panicked == "" {
				// (under a watchdog: a handler that returned while still holding the
				// node's lock blocks every later exchange for good)
				finished := make(chan struct{})
				go func() {
					defer close(finished)
					if victim.State() == "Babbling" && src.State() == "Babbling" {
						_, e1 := vn.Pull(victim, src, true)
						okPull = e1 == nil
						known := victim.core.KnownEvents()
						e2 := vn.Push(src, victim, known)
						okPush = e2 == nil
					}
					victim.node.VLockCore()
					sigErr = victim.core.ProcessSigPool()
					victim.node.VUnlockCore()
				}()
				select {
				case <-finished:
				case <-time.After(30 * time.Second):
					wedged = true
					okPull, okPush = false, false
				}
			}
			errmsg := ""
			if rerr != nil {
				errmsg = rerr.Error()
				if len(errmsg) > 70 {
					errmsg = errmsg[:70]
				}
			}
			w.Emit(victim.num, "Rpc", map[string]interface{}{"class": c.kind, "desc": c.desc, "state": "Babbling", "dir": "request"},
				map[string]interface{}{"panicked": panicked != "", "panic": panicked, "err": errmsg, "blocked": blocked,
					"history_kept": before == after, "still_pulls": okPull, "still_accepts_push": okPush, "sigpool_ok": sigErr == nil, "state": victim.State()})
			nmsgs++
			classes[c.kind]++
			if panicked != "" {
				npanics++
			}
			if wedged {
				// the node never answers again: nothing more can be asked of this network
				abandon = true
				break
			}
			if blocked {
				break // a parked join handler: leave this victim
			}
			if panicked != "" {
				// the real process would be dead; here the handler's goroutine died while
				// possibly holding the core lock: this node is not used any more
				vn.down[victim.num] = true
				dead[victim.num] = true
				break
			}
		}

		if abandon {
			// (a wedged node holds its lock: not even shut down)
			s.Steps += vn.steps
			s.Events += len(w.events)
			s.Blocks += vn.blocks
			s.Errors += vn.errs
			continue
		}

		// ---- (D) hostile responses to a node that pulls, fast-forwards or joins
		if len(all) >= 3 && !dead[all[2].num] && !dead[all[1].num] {
			puller, server := all[2], all[1]
			type respCase struct {
				desc string
				run  func() error
			}
			hostileWire := func(f func(e *hg.WireEvent)) func(r *bnet.SyncResponse) {
				return func(r *bnet.SyncResponse) {
					e := hg.WireEvent{Body: hg.WireBody{CreatorID: server.part.ID, Index: server.core.Seq() + 1, SelfParentIndex: server.core.Seq(), OtherParentIndex: -1}, Signature: "1|1"}
					if len(r.Events) > 0 {
						e = r.Events[0]
					}
					f(&e)
					r.Events = []hg.WireEvent{e}
				}
			}
			rcs := []respCase{}
			addSync := func(desc string, tam func(r *bnet.SyncResponse)) {
				rcs = append(rcs, respCase{"SyncResponse:" + desc, func() error {
					vn.syncTamper = tam
					defer func() { vn.syncTamper = nil }()
					_, err := vn.Pull(puller, server, true)
					return err
				}})
			}
			for _, sg := range hostileSigs {
				sg := sg
				addSync("event-signature="+fmt.Sprintf("%.10q", sg), hostileWire(func(e *hg.WireEvent) { e.Signature = sg }))
			}
			for _, v := range hostileInts {
				v := v
				addSync(fmt.Sprintf("event-index=%d", v), hostileWire(func(e *hg.WireEvent) { e.Body.Index = v }))
				addSync(fmt.Sprintf("event-otherparentindex=%d", v), hostileWire(func(e *hg.WireEvent) { e.Body.OtherParentIndex = v }))
			}
			for _, hs := range hostileStrings {
				hs := hs
				addSync("event-itx-pubkey="+fmt.Sprintf("%.10q", hs), hostileWire(func(e *hg.WireEvent) {
					e.Body.InternalTransactions = []hg.InternalTransaction{{Body: hg.InternalTransactionBody{Type: hg.PEER_ADD, Peer: *peers.NewPeer(hs, "a", "m")}, Signature: "1|1"}}
				}))
			}
			addSync("known=nil", func(r *bnet.SyncResponse) { r.Known = nil })
			addSync("known-negative", func(r *bnet.SyncResponse) {
				for k := range r.Known {
					r.Known[k] = math.MinInt32
				}
			})
			addFF := func(desc string, tam func(r *bnet.FastForwardResponse)) {
				rcs = append(rcs, respCase{"FastForwardResponse:" + desc, func() error {
					vn.ffTamper = func(sv *NNode, r *bnet.FastForwardResponse) { tam(r) }
					defer func() { vn.ffTamper = nil }()
					return puller.node.VFastForward()
				}})
			}
			addFF("zero-block-and-frame", func(r *bnet.FastForwardResponse) { r.Block = hg.Block{}; r.Frame = hg.Frame{} })
			addFF("frame-peers=[nil]", func(r *bnet.FastForwardResponse) { r.Frame.Peers = []*peers.Peer{nil} })
			addFF("frame-events=[nil]", func(r *bnet.FastForwardResponse) { r.Frame.Events = []*hg.FrameEvent{nil} })
			addFF("frame-event-core=nil", func(r *bnet.FastForwardResponse) { r.Frame.Events = []*hg.FrameEvent{{Core: nil}} })
			addFF("frame-roots-nil", func(r *bnet.FastForwardResponse) {
				m := map[string]*hg.Root{}
				for k := range r.Frame.Roots {
					m[k] = nil
				}
				r.Frame.Roots = m
			})
			addFF("frame-event-parents-short", func(r *bnet.FastForwardResponse) {
				if len(r.Frame.Events) > 0 {
					fe := *r.Frame.Events[0]
					c := *fe.Core
					c.Body.Parents = []string{}
					fe.Core = &c
					r.Frame.Events = append([]*hg.FrameEvent{&fe}, r.Frame.Events[1:]...)
				}
			})
			addFF("block-signatures-nil", func(r *bnet.FastForwardResponse) { r.Block.Signatures = nil })
			addFF("signature-key-short", func(r *bnet.FastForwardResponse) {
				r.Block.Signatures = map[string]string{"": "1|1", "0": "1|1", "0X": "x"}
			})
			addFF("peer-pubkey-hostile", func(r *bnet.FastForwardResponse) {
				r.Frame.Peers = append([]*peers.Peer{}, r.Frame.Peers...)
				r.Frame.Peers = append(r.Frame.Peers, peers.NewPeer("", "a", "m"), peers.NewPeer("0", "a", "m"), peers.NewPeer("zz", "a", "m"))
			})
			ntake := len(rcs)
			if o.Arg != "all" && ntake > 25 {
				ntake = 25
			}
			offr := (t * 13) % len(rcs)
			for q := 0; q < ntake; q++ {
				rc := rcs[(offr+q)%len(rcs)]
				before := puller.historyDigest()
				isFF := strings.HasPrefix(rc.desc, "FastForward")
				if isFF {
					puller.node.VTransition(_state.CatchingUp)
				}
				var rerr error
				panicked := ""
				func() {
					defer func() {
						if r := recover(); r != nil {
							panicked = fmt.Sprint(r)
						}
					}()
					rerr = rc.run()
				}()
				vn.syncTamper, vn.ffTamper = nil, nil
				if isFF && panicked == "" {
					if puller.State() != "Babbling" {
						puller.node.VTransition(_state.Babbling)
					}
				}
				okPull, okPush := true, true
				var sigErr error
				after := before
				if panicked == "" {
					after = puller.historyDigest()
					_, e1 := vn.Pull(puller, server, true)
					okPull = e1 == nil
					e2 := vn.Push(server, puller, puller.core.KnownEvents())
					okPush = e2 == nil
					puller.node.VLockCore()
					sigErr = puller.core.ProcessSigPool()
					puller.node.VUnlockCore()
				}
				errmsg := ""
				if rerr != nil {
					errmsg = rerr.Error()
					if len(errmsg) > 70 {
						errmsg = errmsg[:70]
					}
				}
				parts := strings.SplitN(rc.desc, ":", 2)
				w.Emit(puller.num, "Rpc", map[string]interface{}{"class": parts[0], "desc": parts[1], "state": "Babbling", "dir": "response"},
					map[string]interface{}{"panicked": panicked != "", "panic": panicked, "err": errmsg, "blocked": false,
						"history_kept": before == after || (isFF && rerr == nil), "still_pulls": okPull, "still_accepts_push": okPush, "sigpool_ok": sigErr == nil, "state": puller.State()})
				nmsgs++
				classes[parts[0]]++
				if panicked != "" {
					npanics++
					vn.down[puller.num] = true
					dead[puller.num] = true
					break
				}
			}
		}

		// ---- (B) requests and submissions in every non-babbling state
		states := []struct {
			name string
			prep func(nd *NNode)
		}{
			{"Suspended", func(nd *NNode) { nd.node.VTransition(_state.Suspended) }},
			{"CatchingUp", func(nd *NNode) { nd.node.VTransition(_state.CatchingUp) }},
			{"Joining", func(nd *NNode) { nd.node.VTransition(_state.Joining) }},
			{"Shutdown", func(nd *NNode) { nd.node.VTransition(_state.Shutdown) }},
		}
		alive := []*NNode{}
		for _, nd := range all {
			if !dead[nd.num] {
				alive = append(alive, nd)
			}
		}
		if len(alive) < 3 {
			vn.Close()
			continue
		}
		tgt := alive[len(alive)-1]
		peer := alive[0]
		for _, stt := range states {
			stt.prep(tgt)
			w.Emit(tgt.num, "StateChange", map[string]interface{}{"from": "Babbling", "to": stt.name, "why": "driver"}, nil)
			for _, c := range vn.validRequests(tgt, peer) {
				digestBefore := tgt.stateDigest() + fmt.Sprint(len(tgt.app.log))
				viewBefore := len(tgt.view)
				sb := tgt.beforeSync()
				resp, rerr, panicked, blocked := vn.deliverRPC(tgt, c)
				if panicked != "" {
					dead[tgt.num] = true
					w.Emit(tgt.num, "StateRpc", map[string]interface{}{"class": c.kind, "desc": c.desc, "state": stt.name, "mutating": false},
						map[string]interface{}{"panicked": true, "blocked": false, "refused": false, "frozen": false, "served_sync_ok": false, "why": panicked, "is_sync": false, "state_after": "dead"})
					break
				}
				vn.afterSync(tgt, 0, nil, nil, sb, true)
				frozen := digestBefore == tgt.stateDigest()+fmt.Sprint(len(tgt.app.log)) && viewBefore == len(tgt.view)
				served, why := false, ""
				if sr, ok := resp.(*bnet.SyncResponse); ok && sr != nil && rerr == nil {
					served, why = vn.checkSyncResponse(tgt, c.cmd.(*bnet.SyncRequest), sr, 40)
				}
				mutating := c.kind == "EagerSyncRequest" || c.kind == "JoinRequest"
				w.Emit(tgt.num, "StateRpc", map[string]interface{}{"class": c.kind, "desc": c.desc, "state": stt.name, "mutating": mutating},
					map[string]interface{}{"panicked": panicked != "", "blocked": blocked, "refused": rerr != nil, "frozen": frozen,
						"served_sync_ok": served, "why": why, "is_sync": c.kind == "SyncRequest", "state_after": tgt.State()})
				nstates++
			}
			// a submitted transaction while not babbling
			id, payload := w.RandTx()
			db := tgt.stateDigest() + fmt.Sprint(len(tgt.app.log))
			tgt.node.VAddTransaction(payload)
			w.Emit(tgt.num, "Submit", map[string]interface{}{"tx": id}, map[string]interface{}{"pool": len(tgt.core.TransactionPool()), "state": tgt.State()})
			w.Emit(tgt.num, "StateRpc", map[string]interface{}{"class": "SubmitTx", "desc": id, "state": stt.name, "mutating": false},
				map[string]interface{}{"panicked": false, "blocked": false, "refused": false, "frozen": db == tgt.stateDigest()+fmt.Sprint(len(tgt.app.log)),
					"served_sync_ok": false, "why": "", "is_sync": false, "state_after": tgt.State()})
			nstates++
		}
		tgt.node.VTransition(_state.Babbling)
		w.Emit(tgt.num, "StateChange", map[string]interface{}{"from": "Shutdown", "to": "Babbling", "why": "driver"}, nil)

		// ---- (C) no quorum: only floor((n-1)/2)+... fewer than a super-majority keep gossiping;
		// the driver plays the heartbeat (checkSuspend after every exchange)
		if dead[tgt.num] {
			vn.Close()
			continue
		}
		live := alive[:(2*len(alive))/3] // strictly fewer than the super-majority
		if len(live) >= 2 {
			for k := 0; k < 100+limit*n*6; k++ {
				a := live[w.rng.Intn(len(live))]
				b := live[w.rng.Intn(len(live))]
				if a == b || a.State() != "Babbling" || b.State() != "Babbling" {
					// a suspended node still serves sync requests
					if a != b && a.State() == "Babbling" && b.State() == "Suspended" {
						vn.Pull(a, b, true)
					}
					continue
				}
				vn.Gossip(a, b, true)
				hb(a)
				hb(b)
			}
		}
		s.Steps += vn.steps
		s.Events += len(w.events)
		s.Blocks += vn.blocks
		s.Errors += vn.errs
		for _, nd := range vn.nodes {
			nd.node.VTransition(_state.Shutdown)
		}
		vn.Close()
	}
	cl := []string{}
	for k, v := range classes {
		cl = append(cl, fmt.Sprintf("%s:%d", k, v))
	}
	sort.Strings(cl)
	s.Extra["hostile_messages"] = nmsgs
	s.Extra["hostile_by_class"] = cl
	s.Extra["panics_caught"] = npanics
	s.Extra["state_requests"] = nstates
	s.Extra["heartbeats"] = nheart
	s.Samples = append(s.Samples, map[string]interface{}{"hostile_strings": hostileStrings[:6], "hostile_ints": hostileInts, "hostile_signatures": hostileSigs[:8]})
	s.Traces = o.Traces
	s.Lines = w.lines
	w.CloseTrace()
	return s
}

// validRequests: well-formed requests an honest peer would send
func (vn *VNet) validRequests(tgt, peer *NNode) []rpcCase {
	w := vn.w
	res := []rpcCase{}
	known := peer.core.KnownEvents()
	// the peer pretends to know less, so that there is something to serve
	k2 := map[uint32]int{}
	for id, v := range known {
		k2[id] = v - 3
		if k2[id] < -1 {
			k2[id] = -1
		}
	}
	res = append(res, rpcCase{"SyncRequest", "valid-limit-5", &bnet.SyncRequest{FromID: peer.part.ID, Known: k2, SyncLimit: 5}})
	res = append(res, rpcCase{"SyncRequest", "valid-limit-1000", &bnet.SyncRequest{FromID: peer.part.ID, Known: k2, SyncLimit: 1000}})
	res = append(res, rpcCase{"SyncRequest", "valid-empty-known", &bnet.SyncRequest{FromID: peer.part.ID, Known: map[uint32]int{}, SyncLimit: 1000}})
	diff, _ := peer.core.EventDiff(tgt.core.KnownEvents())
	if len(diff) > 4 {
		diff = diff[:4]
	}
	wire, _ := peer.core.ToWire(diff)
	res = append(res, rpcCase{"EagerSyncRequest", fmt.Sprintf("valid-%d-events", len(wire)), &bnet.EagerSyncRequest{FromID: peer.part.ID, Events: wire}})
	st := w.parts[len(w.parts)-1]
	t := hg.NewInternalTransactionJoin(*peers.NewPeer(st.PubHex, "addr", "mon"))
	t.Sign(st.Key)
	res = append(res, rpcCase{"JoinRequest", "valid", &bnet.JoinRequest{InternalTransaction: t}})
	res = append(res, rpcCase{"FastForwardRequest", "valid", &bnet.FastForwardRequest{FromID: peer.part.ID}})
	return res
}
