package main

// VApp: deterministic application (proxy.AppProxy).  State hash = running
// SHA-256 over the committed transactions; internal transactions are accepted
// unless the driver's policy says otherwise; one snapshot per block.

import (
	"crypto/sha256"
	"fmt"

	hg "github.com/mosaicnetworks/babble/src/hashgraph"
	"github.com/mosaicnetworks/babble/src/node/state"
	"github.com/mosaicnetworks/babble/src/proxy"
)

type Delivered struct {
	Block    hg.Block // copy as handed to the application
	Resp     proxy.CommitResponse
	BodyHash []byte // hash of the body including the response (what validators sign)
	Phase    string // "", "bootstrap"
	// the application processed the block but its reply never reached Babble (the
	// call returned an error): Dig0 is the hash of the body as handed over
	LostReply bool
	Dig0      []byte
}

type VApp struct {
	w         *World
	name      int
	submitCh  chan []byte
	stateHash []byte
	log       []Delivered
	drained   int
	snapshots map[int][]byte
	restores  [][]byte
	states    []state.State
	failNext  bool
	loseReply int  // > 0: the reply to the k-th next commit without internal transactions is lost
	lostFired bool
	failState bool // the state-change handler reports an error (the node's state must change all the same)
	onCommit  func(d *Delivered)
}

func NewVApp(w *World, name int) *VApp {
	return &VApp{w: w, name: name, submitCh: make(chan []byte, 1024), stateHash: []byte{}, snapshots: map[int][]byte{}}
}

func (a *VApp) SubmitCh() chan []byte { return a.submitCh }

func (a *VApp) CommitBlock(block hg.Block) (proxy.CommitResponse, error) {
	if a.failNext {
		a.failNext = false
		return proxy.CommitResponse{}, fmt.Errorf("vapp: injected commit failure")
	}
	h := sha256.New()
	h.Write(a.stateHash)
	for _, tx := range block.Transactions() {
		h.Write(tx)
		h.Write([]byte{0})
	}
	a.stateHash = h.Sum(nil)
	receipts := []hg.InternalTransactionReceipt{}
	for i := range block.InternalTransactions() {
		t := block.InternalTransactions()[i]
		inf := a.w.ItxInfoOf(&t)
		if inf.OK {
			receipts = append(receipts, t.AsAccepted())
		} else {
			receipts = append(receipts, t.AsRefused())
		}
	}
	resp := proxy.CommitResponse{StateHash: append([]byte{}, a.stateHash...), InternalTransactionReceipts: receipts}

	// copy of the body with the response, to compute what gets signed
	cp := block
	cp.Body.StateHash = resp.StateHash
	cp.Body.InternalTransactionReceipts = resp.InternalTransactionReceipts
	bh, _ := cp.Body.Hash()
	d := Delivered{Block: block, Resp: resp, BodyHash: bh}
	a.w.NoteBody(block.Index(), bh)
	a.log = append(a.log, d)
	a.snapshots[block.Index()] = append([]byte{}, a.stateHash...)
	if a.loseReply > 0 && len(block.InternalTransactions()) == 0 {
		a.loseReply--
		if a.loseReply == 0 {
			// the application did its part; the answer is lost on the way back
			last := &a.log[len(a.log)-1]
			last.LostReply = true
			last.Dig0, _ = block.Body.Hash()
			a.lostFired = true
			if a.onCommit != nil {
				a.onCommit(last)
			}
			return proxy.CommitResponse{}, fmt.Errorf("vapp: the reply to the commit of block %d was lost", block.Index())
		}
	}
	if a.onCommit != nil {
		a.onCommit(&a.log[len(a.log)-1])
	}
	return resp, nil
}

func (a *VApp) GetSnapshot(blockIndex int) ([]byte, error) {
	s, ok := a.snapshots[blockIndex]
	if !ok {
		return nil, fmt.Errorf("vapp: no snapshot for block %d", blockIndex)
	}
	return s, nil
}

func (a *VApp) Restore(snapshot []byte) error {
	a.stateHash = append([]byte{}, snapshot...)
	a.restores = append(a.restores, append([]byte{}, snapshot...))
	return nil
}

func (a *VApp) OnStateChanged(s state.State) error {
	a.states = append(a.states, s)
	if a.failState {
		return fmt.Errorf("vapp: injected state-change handler failure")
	}
	return nil
}

// Drain returns the blocks delivered since the last call.
func (a *VApp) Drain() []Delivered {
	res := a.log[a.drained:]
	a.drained = len(a.log)
	return res
}

// Reset forgets the application state (used before a bootstrap).
func (a *VApp) Reset() {
	a.stateHash = []byte{}
	a.snapshots = map[int][]byte{}
}
