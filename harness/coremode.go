package main

// "core" mode: N real cores, each over its own real hashgraph and store, wired
// only through the driver: a step is one core.sync (diff computed by the real
// eventDiff / toWire of the sender against the receiver's real known-map),
// followed by processSigPool, exactly as node.pull / processEagerSyncRequest
// do under coreLock.

import (
	"fmt"
	"os"
	"path/filepath"

	hg "github.com/mosaicnetworks/babble/src/hashgraph"
)

type CoreNet struct {
	w       *World
	nodes   []*CNode
	byNum   map[int]*CNode
	steps   int
	errs    int
	blocks  int
	maxEv   int
	mangle  float64
	mangled int
	reentered int
	pred    map[string]interface{} // sched mode: the specification's prediction for the next step
}

type CoreOpts struct {
	N       int
	Store   string
	Cache   int
	Dir     string
	Genesis []int
}

func NewCoreNet(w *World, o CoreOpts) *CoreNet {
	cn := &CoreNet{w: w, byNum: map[int]*CNode{}}
	gen := o.Genesis
	if gen == nil {
		for i := 1; i <= o.N; i++ {
			gen = append(gen, i)
		}
	}
	for _, k := range gen {
		dir := ""
		if o.Store == "badger" {
			dir = filepath.Join(o.Dir, fmt.Sprintf("db_t%d_n%d", w.traceNo, k))
			os.RemoveAll(dir)
		}
		n := w.NewCNode(w.parts[k-1], gen, gen, o.Store, o.Cache, dir)
		cn.nodes = append(cn.nodes, n)
		cn.byNum[k] = n
	}
	return cn
}

// EnableReentrant: the application submits a follow-up transaction from inside its
// commit handler now and then (with the in-process proxy nothing forbids it): the
// transaction reaches the pool while the block is being committed, possibly in the
// middle of the node's own addSelfEvent.  The specification does not follow such a
// node any further (x.nospec); the property checks on the observed pools, events
// and blocks go on.
func (cn *CoreNet) EnableReentrant(p float64) {
	for _, nd := range cn.nodes {
		n := nd
		budget := 3 // (a follow-up per commit for ever would be a workload that never ends)
		n.app.onCommit = func(d *Delivered) {
			if budget == 0 || cn.w.rng.Float64() >= p {
				return
			}
			budget--
			id, payload := cn.w.RandTx()
			n.core.AddTransactions([][]byte{payload})
			if n.nospec == "" {
				n.nospec = "submission-inside-commit"
			}
			cn.reentered++
			cn.w.Emit(n.num, "Submit", map[string]interface{}{"tx": id, "inside_commit": d.Block.Index()},
				map[string]interface{}{"pool": len(n.core.TransactionPool())})
		}
	}
}

func (cn *CoreNet) Close() {
	for _, n := range cn.nodes {
		n.Close()
	}
}

func (cn *CoreNet) EmitInit(extra map[string]interface{}) {
	nodes := []interface{}{}
	for _, n := range cn.nodes {
		nodes = append(nodes, map[string]interface{}{"n": n.num, "me": n.num, "store": n.kind, "cache": n.cache})
	}
	x := map[string]interface{}{
		"nc": len(cn.w.parts), "genesis": cn.nodes[0].genesis, "nodes": nodes,
		"delay": 6, "rootdepth": hg.ROOT_DEPTH, "coin": 4,
	}
	for k, v := range extra {
		x[k] = v
	}
	cn.w.Emit(0, "Init", x, nil)
}

// Submit adds a transaction to a node's pool.
func (cn *CoreNet) Submit(n *CNode, id string, payload []byte) {
	n.core.AddTransactions([][]byte{payload})
	cn.w.Emit(n.num, "Submit", map[string]interface{}{"tx": id}, map[string]interface{}{"pool": len(n.core.TransactionPool())})
}

// SyncStep: a receives from b the diff against a's known map, truncated.
// Returns the number of events inserted.
func (cn *CoreNet) SyncStep(a, b *CNode, limit int, full bool) (int, error) {
	known := a.core.KnownEvents()
	diff, err := b.core.EventDiff(known)
	if err != nil {
		// the sender cannot compute a diff (e.g. TooLate with a small cache)
		cn.w.Emit(a.num, "SyncFail", map[string]interface{}{"from": b.num, "why": "diff"}, nil)
		return 0, err
	}
	if limit > 0 && len(diff) > limit {
		diff = diff[:limit]
	}
	if cn.mangle > 0 && len(diff) >= 3 && cn.w.rng.Float64() < cn.mangle {
		// a response that lost one event in transit: the events that depend
		// on it cannot be resolved by the receiver and the sync fails midway
		k := 1 + cn.w.rng.Intn(len(diff)-2)
		diff = append(append([]*hg.Event{}, diff[:k]...), diff[k+1:]...)
		cn.mangled++
	}
	wire, err := b.core.ToWire(diff)
	if err != nil {
		return 0, err
	}
	return cn.deliver(a, b.num, b.part.ID, diff, wire, full)
}

// SyncUpTo: a receives from b the diff against a's known map, cut after the event
// with the given id ("" = an empty response; an id that is not in the diff = the
// whole diff).
func (cn *CoreNet) SyncUpTo(a, b *CNode, lastID string) (int, error) {
	known := a.core.KnownEvents()
	diff, err := b.core.EventDiff(known)
	if err != nil {
		cn.w.Emit(a.num, "SyncFail", map[string]interface{}{"from": b.num, "why": "diff"}, nil)
		return 0, err
	}
	if lastID == "" {
		diff = diff[:0]
	} else {
		for k, ev := range diff {
			if inf, ok := cn.w.events[ev.Hex()]; ok && inf.ID == lastID {
				diff = diff[:k+1]
				break
			}
		}
	}
	wire, err := b.core.ToWire(diff)
	if err != nil {
		return 0, err
	}
	return cn.deliver(a, b.num, b.part.ID, diff, wire, false)
}

func (cn *CoreNet) deliver(a *CNode, fromNum int, fromID uint32, diff []*hg.Event, wire []hg.WireEvent, full bool) (int, error) {
	sent := []string{}
	for _, ev := range diff {
		inf, isNew := cn.w.Register(ev)
		if isNew {
			// an event the driver has not seen created (should not happen in honest runs)
			cn.w.EmitCreate(inf)
		}
		sent = append(sent, inf.ID)
	}
	lcrBefore := -1
	if a.core.Hg().LastConsensusRound != nil {
		lcrBefore = *a.core.Hg().LastConsensusRound
	}
	pend := a.core.Hg().PendingRounds.GetOrderedPendingRounds()
	from := lcrBefore
	if len(pend) > 0 && pend[0].Index < from {
		from = pend[0].Index
	}

	serr := a.core.Sync(fromID, wire)
	var perr error
	if serr == nil || hg.IsNormalSelfParentError(serr) {
		perr = a.core.ProcessSigPool()
	}

	// which of the sent events were inserted by this step
	inserted := []string{}
	insHashes := []string{}
	for _, ev := range diff {
		h := ev.Hex()
		if a.view[h] {
			continue
		}
		if _, err := a.store.GetEvent(h); err == nil {
			inf := cn.w.events[h]
			a.markInserted(inf)
			inserted = append(inserted, inf.ID)
			insHashes = append(insHashes, h)
		}
	}
	created := []string{}
	for _, inf := range a.collectNew() {
		cn.w.EmitCreate(inf)
		a.markInserted(inf)
		created = append(created, inf.ID)
		insHashes = append(insHashes, inf.Hash)
	}
	if len(cn.w.events) > cn.maxEv {
		cn.maxEv = len(cn.w.events)
	}
	o := a.Observe(insHashes, from, full)
	o["err"] = serr != nil && !hg.IsNormalSelfParentError(serr)
	o["serr"] = perr != nil
	if serr != nil {
		o["errmsg"] = serr.Error()
		if !hg.IsNormalSelfParentError(serr) {
			a.failed = true
		}
	}
	cn.blocks += len(o["blocks"].([]interface{}))
	x := map[string]interface{}{"from": fromNum, "evs": sent, "ins": inserted, "new": created}
	if cn.pred != nil {
		x["pred"] = cn.pred
	}
	if a.fs != nil {
		if fired := a.fs.TakeFired(); len(fired) > 0 {
			if !a.lost {
				a.lostWhy = fired[0]
			}
			a.lost = true
			x["fault"] = fired[0]
		}
	}
	if a.lost {
		x["lost"] = a.lostWhy
	}
	if a.app.lostFired && a.nospec == "" {
		a.nospec = "commit-reply-lost"
	}
	if a.nospec != "" {
		x["nospec"] = a.nospec
	}
	cn.w.Emit(a.num, "Sync", x, o)
	cn.steps++
	if serr != nil && !hg.IsNormalSelfParentError(serr) {
		cn.errs++
	}
	return len(inserted) + len(created), nil
}
