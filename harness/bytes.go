package main

// "bytes" mode (C08, byte streams): a real Node behind the real TCP
// NetworkTransport on loopback, running its own background loop.  Byte streams
// drawn from framing classes are written to its gossip port; after each, a
// valid SyncRequest over a fresh honest transport must still be answered and
// the delivered history must be unchanged.  Each class runs in a child process:
// a crash of the node is the child's death.

import (
	"bytes"
	"encoding/json"
	"fmt"
	"math/rand"
	"net"
	"os"
	"os/exec"
	"strings"
	"time"

	"github.com/mosaicnetworks/babble/src/config"
	hg "github.com/mosaicnetworks/babble/src/hashgraph"
	bnet "github.com/mosaicnetworks/babble/src/net"
	"github.com/mosaicnetworks/babble/src/node"
)

func init() {
	modes["bytes"] = runBytes
	modes["bytes-child"] = runBytesChild
}

var byteClasses = []string{"unknown-rpc-byte", "truncated-json", "wrong-json-types", "deep-nesting", "huge-strings",
	"garbage-after-valid", "random-bytes", "valid-type-then-null", "negative-numbers", "many-connections"}

func freeAddr() string {
	l, err := net.Listen("tcp", "127.0.0.1:0")
	if err != nil {
		panic(err)
	}
	defer l.Close()
	return l.Addr().String()
}

func streamsOf(class string, rng *rand.Rand) [][]byte {
	validSync, _ := json.Marshal(bnet.SyncRequest{FromID: 1, Known: map[uint32]int{1: 0}, SyncLimit: 10})
	res := [][]byte{}
	add := func(b []byte) { res = append(res, b) }
	switch class {
	case "unknown-rpc-byte":
		for _, t := range []byte{4, 5, 9, 0x7f, 0xff} {
			add(append([]byte{t}, validSync...))
		}
	case "truncated-json":
		for cut := 1; cut < len(validSync); cut += 7 {
			add(append([]byte{0}, validSync[:cut]...))
		}
	case "wrong-json-types":
		for _, j := range []string{`{"FromID":"x","Known":[],"SyncLimit":"y"}`, `{"FromID":-1}`, `{"Known":{"a":1}}`, `[]`, `"str"`, `123`, `{"FromID":1.5}`,
			`{"Events":[{"Body":{"Transactions":"notbase64","Index":"z"}}]}`, `{"Events":[{"Body":{"InternalTransactions":[{"Body":{"Peer":{"PubKeyHex":5}}}]}}]}`,
			`{"InternalTransaction":{"Body":{"Type":300,"Peer":null},"Signature":7}}`} {
			for _, t := range []byte{0, 1, 2, 3} {
				add(append([]byte{t}, []byte(j)...))
			}
		}
	case "deep-nesting":
		add(append([]byte{0}, []byte(strings.Repeat("[", 100000))...))
		add(append([]byte{1}, []byte(strings.Repeat(`{"a":`, 50000))...))
	case "huge-strings":
		add(append([]byte{3}, []byte(`{"InternalTransaction":{"Body":{"Type":0,"Peer":{"PubKeyHex":"`+strings.Repeat("A", 1<<20)+`"}},"Signature":"`+strings.Repeat("z", 1<<20)+`"}}`)...))
		add(append([]byte{1}, []byte(`{"FromID":1,"Events":[{"Body":{"Transactions":["`+strings.Repeat("QUFB", 1<<18)+`"]},"Signature":"1|1"}]}`)...))
	case "garbage-after-valid":
		for k := 0; k < 5; k++ {
			g := make([]byte, 50+rng.Intn(200))
			rng.Read(g)
			add(append(append([]byte{0}, validSync...), g...))
		}
	case "random-bytes":
		for k := 0; k < 20; k++ {
			g := make([]byte, 1+rng.Intn(4000))
			rng.Read(g)
			add(g)
		}
	case "valid-type-then-null":
		for _, t := range []byte{0, 1, 2, 3} {
			add(append([]byte{t}, []byte("null")...))
			add(append([]byte{t}, []byte("{}")...))
			add([]byte{t})
		}
	case "negative-numbers":
		add(append([]byte{0}, []byte(`{"FromID":1,"Known":{"1":-5,"2":-2147483648},"SyncLimit":-1}`)...))
		add(append([]byte{0}, []byte(`{"FromID":1,"Known":null,"SyncLimit":-9223372036854775808}`)...))
		add(append([]byte{1}, []byte(`{"FromID":1,"Events":[{"Body":{"Index":-1,"SelfParentIndex":-7,"OtherParentIndex":-7,"CreatorID":0},"Signature":"-1|-1"}]}`)...))
	case "many-connections":
		for k := 0; k < 60; k++ {
			add([]byte{0})
		}
	}
	return res
}

func runBytesChild(o *Opts) *Summary {
	class := o.Arg
	w := NewWorld(o.Seed, 2)
	gen := []int{1, 2}
	addr := freeAddr()
	w.parts[0].Peer.NetAddr = addr
	conf := config.NewDefaultConfig()
	conf.LogLevel = "panic"
	conf.HeartbeatTimeout = time.Hour
	conf.SlowHeartbeatTimeout = time.Hour
	conf.TCPTimeout = 800 * time.Millisecond
	conf.JoinTimeout = time.Second
	trans, err := bnet.NewTCPTransport(addr, "", 2, conf.TCPTimeout, conf.JoinTimeout, quietLogger())
	if err != nil {
		fmt.Println("ERR transport", err)
		os.Exit(3)
	}
	app := NewVApp(w, 1)
	nd := node.NewNode(conf, node.NewValidator(w.parts[0].Key, "n1"), w.PeerSet(gen), w.PeerSet(gen), hg.NewInmemStore(1000), trans, app)
	nd.Init()
	nd.RunAsync(false)
	time.Sleep(100 * time.Millisecond)
	client, err := bnet.NewTCPTransport(freeAddr(), "", 2, conf.TCPTimeout, conf.JoinTimeout, quietLogger())
	if err != nil {
		fmt.Println("ERR client", err)
		os.Exit(3)
	}
	validOK := func() bool {
		for try := 0; try < 3; try++ {
			var resp bnet.SyncResponse
			err := client.Sync(addr, &bnet.SyncRequest{FromID: w.parts[1].ID, Known: map[uint32]int{}, SyncLimit: 10}, &resp)
			if err == nil {
				return true
			}
			time.Sleep(50 * time.Millisecond)
		}
		return false
	}
	if !validOK() {
		fmt.Println("ERR baseline valid sync failed")
		os.Exit(3)
	}
	rng := rand.New(rand.NewSource(o.Seed))
	streams := streamsOf(class, rng)
	served := 0
	for _, sdata := range streams {
		c, err := net.DialTimeout("tcp", addr, time.Second)
		if err != nil {
			continue
		}
		c.SetDeadline(time.Now().Add(300 * time.Millisecond))
		c.Write(sdata)
		buf := make([]byte, 256)
		c.Read(buf)
		c.Close()
		if validOK() {
			served++
		}
	}
	fmt.Printf("RESULT class=%s streams=%d served_after=%d blocks=%d\n", class, len(streams), served, len(app.log))
	os.Exit(0)
	return nil
}

func runBytes(o *Opts) *Summary {
	s := &Summary{Mode: "bytes", Extra: map[string]interface{}{}}
	w := NewWorld(o.Seed, 1)
	w.OpenTrace(o.Out)
	w.traceNo = 1
	w.Emit(0, "Init", map[string]interface{}{"nc": 1, "genesis": []int{1}, "nodes": []interface{}{}, "mode": "bytes"}, nil)
	self, _ := os.Executable()
	total := 0
	type res struct {
		class           string
		streams, served int
		crashed, infra  bool
		tail            string
	}
	results := make([]res, len(byteClasses))
	donech := make(chan int, len(byteClasses))
	for i, class := range byteClasses {
		go func(i int, class string) {
			defer func() { donech <- i }()
			cmd := exec.Command(self, "bytes-child", "-seed", fmt.Sprint(o.Seed), "-arg", class, "-out", os.DevNull)
			var out bytes.Buffer
			cmd.Stdout, cmd.Stderr = &out, &out
			done := make(chan error, 1)
			cmd.Start()
			go func() { done <- cmd.Wait() }()
			var err error
			timedOut := false
			select {
			case err = <-done:
			case <-time.After(150 * time.Second):
				cmd.Process.Kill()
				timedOut = true
			}
			txt := out.String()
			r := res{class: class}
			okLine := false
			for _, l := range strings.Split(txt, "\n") {
				if strings.HasPrefix(l, "RESULT") {
					fmt.Sscanf(l, "RESULT class="+class+" streams=%d served_after=%d", &r.streams, &r.served)
					okLine = true
				}
			}
			r.infra = strings.Contains(txt, "ERR ") || timedOut
			r.crashed = !r.infra && (err != nil || !okLine)
			r.tail = txt
			if len(r.tail) > 300 {
				r.tail = r.tail[len(r.tail)-300:]
			}
			results[i] = r
		}(i, class)
	}
	for range byteClasses {
		<-donech
	}
	for _, r := range results {
		w.Emit(1, "Bytes", map[string]interface{}{"class": r.class, "streams": r.streams},
			map[string]interface{}{"crashed": r.crashed, "served_after": r.served, "infra": r.infra, "tail": r.tail})
		total += r.streams
		s.Samples = append(s.Samples, map[string]interface{}{"class": r.class, "streams": r.streams, "served_after": r.served})
	}
	s.Extra["byte_streams"] = total
	s.Steps = total
	s.Traces = 1
	s.Lines = w.lines
	w.CloseTrace()
	return s
}
