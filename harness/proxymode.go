package main

// "proxy" mode (C20): every case of spec/ProxyCases.tla (written out by TLC as
// proxy_cases.json) is executed against the real proxies: the in-process
// InmemProxy, and the socket pair (SocketAppProxy on the Babble side,
// SocketBabbleProxy on the application side) wired over loopback through two
// relays that apply the case's connection-fault script.
// One "Proxy" line per case: what was passed on one side, what every handler
// run on the other side saw and returned, what the caller got back.

import (
	"bytes"
	"encoding/hex"
	"encoding/json"
	"fmt"
	"io"
	"net"
	"os"
	"sync"
	"time"

	hg "github.com/mosaicnetworks/babble/src/hashgraph"
	"github.com/mosaicnetworks/babble/src/node/state"
	"github.com/mosaicnetworks/babble/src/peers"
	"github.com/mosaicnetworks/babble/src/proxy"
	"github.com/mosaicnetworks/babble/src/proxy/inmem"
	sapp "github.com/mosaicnetworks/babble/src/proxy/socket/app"
	sbabble "github.com/mosaicnetworks/babble/src/proxy/socket/babble"
)

func init() { modes["proxy"] = runProxyMode }

// ---------------------------------------------------------------- relay

type relay struct {
	ln     net.Listener
	target string
	mu     sync.Mutex
	script []string
	live   []net.Conn
}

func newRelay(target string) *relay {
	ln, err := net.Listen("tcp", "127.0.0.1:0")
	if err != nil {
		panic(err)
	}
	r := &relay{ln: ln, target: target}
	go r.serve()
	return r
}

func (r *relay) addr() string { return r.ln.Addr().String() }

// down stops listening (a dial gets "connection refused"); up listens again on
// the same address
func (r *relay) down() {
	r.killAll()
	r.ln.Close()
}

func (r *relay) up() {
	a := r.ln.Addr().String()
	for try := 0; try < 50; try++ {
		ln, err := net.Listen("tcp", a)
		if err == nil {
			r.ln = ln
			go r.serve()
			return
		}
		time.Sleep(10 * time.Millisecond)
	}
	panic("relay: cannot listen again on " + a)
}

func (r *relay) setScript(s []string) {
	r.mu.Lock()
	r.script = append([]string{}, s...)
	r.mu.Unlock()
}

func (r *relay) next() string {
	r.mu.Lock()
	defer r.mu.Unlock()
	if len(r.script) == 0 {
		return "pass"
	}
	m := r.script[0]
	r.script = r.script[1:]
	return m
}

func (r *relay) track(c net.Conn) {
	r.mu.Lock()
	r.live = append(r.live, c)
	r.mu.Unlock()
}

func (r *relay) killAll() {
	r.mu.Lock()
	for _, c := range r.live {
		c.Close()
	}
	r.live = nil
	r.mu.Unlock()
}

func (r *relay) serve() {
	for {
		c, err := r.ln.Accept()
		if err != nil {
			return
		}
		go r.handle(c, r.next())
	}
}

func (r *relay) handle(c net.Conn, mode string) {
	switch mode {
	case "refuse":
		c.Close()
		return
	case "blackhole":
		r.track(c)
		io.Copy(io.Discard, c)
		return
	}
	t, err := net.DialTimeout("tcp", r.target, time.Second)
	if err != nil {
		c.Close()
		return
	}
	r.track(c)
	r.track(t)
	go func() {
		io.Copy(t, c)
		t.Close()
	}()
	if mode == "reply-lost" {
		// the request reaches the other side; the connection dies when the
		// first byte of the reply comes back
		one := make([]byte, 1)
		t.Read(one)
		c.Close()
		t.Close()
		return
	}
	io.Copy(c, t)
	c.Close()
	t.Close()
}

func faultScript(f string) (script []string, idleKill bool, handlerErr bool) {
	switch f {
	case "refuse1":
		return []string{"refuse"}, true, false
	case "refuse2":
		return []string{"refuse", "refuse"}, true, false
	case "refuse3", "refuse3-cold":
		return []string{"refuse", "refuse", "refuse"}, true, false
	case "reply-lost1":
		return []string{"reply-lost"}, true, false
	case "reply-lost3":
		return []string{"reply-lost", "reply-lost", "reply-lost"}, true, false
	case "blackhole1":
		return []string{"blackhole"}, true, false
	case "idle-kill":
		return nil, true, false
	case "idle-kill+refuse2":
		return []string{"refuse", "refuse"}, true, false
	case "handler-error":
		return nil, false, true
	}
	return nil, false, false
}

// ---------------------------------------------------------------- application-side handler

type handlerRun struct {
	BlockHex, BlockPayload string
	Resp                   string // digest of the response returned ("" when an error was returned)
	Err                    bool
	Snap                   string
}

type pHandler struct {
	mu      sync.Mutex
	runs    []handlerRun
	resp    proxy.CommitResponse
	snap    []byte
	failAll bool
}

func respDigest(r proxy.CommitResponse) string {
	var b bytes.Buffer
	fmt.Fprintf(&b, "sh:%d:%s|", len(r.StateHash), hex.EncodeToString(r.StateHash))
	for _, rc := range r.InternalTransactionReceipts {
		h, _ := rc.InternalTransaction.Body.Hash()
		fmt.Fprintf(&b, "r:%s:%s:%v;", hex.EncodeToString(h), rc.InternalTransaction.Signature, rc.Accepted)
	}
	fmt.Fprintf(&b, "n=%d", len(r.InternalTransactionReceipts))
	return dig(b.Bytes())
}

func (h *pHandler) CommitHandler(block hg.Block) (proxy.CommitResponse, error) {
	h.mu.Lock()
	defer h.mu.Unlock()
	run := handlerRun{BlockHex: block.Hex(), BlockPayload: blockPayload(&block)}
	if h.failAll {
		run.Err = true
		h.runs = append(h.runs, run)
		return proxy.CommitResponse{}, fmt.Errorf("application refuses block %d", block.Index())
	}
	run.Resp = respDigest(h.resp)
	h.runs = append(h.runs, run)
	return h.resp, nil
}

func (h *pHandler) SnapshotHandler(blockIndex int) ([]byte, error) {
	h.mu.Lock()
	defer h.mu.Unlock()
	if h.failAll {
		h.runs = append(h.runs, handlerRun{Err: true})
		return nil, fmt.Errorf("no snapshot for %d", blockIndex)
	}
	h.runs = append(h.runs, handlerRun{Snap: dig(h.snap) + fmt.Sprint(len(h.snap))})
	return h.snap, nil
}

func (h *pHandler) RestoreHandler(snapshot []byte) ([]byte, error) {
	h.mu.Lock()
	defer h.mu.Unlock()
	if h.failAll {
		h.runs = append(h.runs, handlerRun{Err: true})
		return nil, fmt.Errorf("cannot restore")
	}
	h.runs = append(h.runs, handlerRun{Snap: dig(snapshot) + fmt.Sprint(len(snapshot))})
	return []byte("statehash"), nil
}

func (h *pHandler) StateChangeHandler(s state.State) error { return nil }

func (h *pHandler) reset(resp proxy.CommitResponse, snap []byte, failAll bool) {
	h.mu.Lock()
	h.runs, h.resp, h.snap, h.failAll = nil, resp, snap, failAll
	h.mu.Unlock()
}

func (h *pHandler) take() []handlerRun {
	h.mu.Lock()
	defer h.mu.Unlock()
	r := h.runs
	h.runs = nil
	return r
}

// ---------------------------------------------------------------- the two wirings

type proxyRig struct {
	appSide    proxy.AppProxy // what Babble calls
	submit     func([]byte) error
	h          *pHandler
	toApp      *relay // Babble -> application calls
	toBabble   *relay // application -> Babble calls
	received   [][]byte
	recvMu     sync.Mutex
	submitDone chan struct{}
	isDown     *relay
}

// restore brings a relay that a case took down back up
func (rig *proxyRig) restore() {
	if rig.isDown != nil {
		rig.isDown.up()
		rig.isDown = nil
	}
}

func freePort() string {
	l, err := net.Listen("tcp", "127.0.0.1:0")
	if err != nil {
		panic(err)
	}
	defer l.Close()
	return l.Addr().String()
}

func newSocketRig(timeout time.Duration) *proxyRig {
	rig := &proxyRig{h: &pHandler{}}
	appAddr, babbleAddr := freePort(), freePort()
	rig.toApp = newRelay(appAddr)
	rig.toBabble = newRelay(babbleAddr)
	ap, err := sapp.NewSocketAppProxy(rig.toApp.addr(), babbleAddr, timeout, quietLogger())
	if err != nil {
		panic(err)
	}
	bp, err := sbabble.NewSocketBabbleProxy(rig.toBabble.addr(), appAddr, rig.h, timeout, quietLogger())
	if err != nil {
		panic(err)
	}
	rig.appSide = ap
	rig.submit = bp.SubmitTx
	go rig.consume(ap.SubmitCh())
	return rig
}

func newInmemRig() *proxyRig {
	rig := &proxyRig{h: &pHandler{}}
	ip := inmem.NewInmemProxy(rig.h, quietLogger())
	rig.appSide = ip
	rig.submit = func(tx []byte) error { ip.SubmitTx(tx); return nil }
	go rig.consume(ip.SubmitCh())
	return rig
}

func (rig *proxyRig) consume(ch chan []byte) {
	for tx := range ch {
		rig.recvMu.Lock()
		rig.received = append(rig.received, tx)
		rig.recvMu.Unlock()
	}
}

func (rig *proxyRig) takeReceived() [][]byte {
	time.Sleep(2 * time.Millisecond)
	rig.recvMu.Lock()
	defer rig.recvMu.Unlock()
	r := rig.received
	rig.received = nil
	return r
}

func (rig *proxyRig) arm(r *relay, fault string) bool {
	if (fault == "refuse3-cold" || fault == "down-cold") && r != nil {
		// the other side has been down for a while: a first call already failed
		// and left the caller without a connection
		if fault == "down-cold" {
			r.down()
			rig.isDown = r
		} else {
			r.killAll()
			r.setScript([]string{"refuse", "refuse", "refuse"})
		}
		if r == rig.toApp {
			rig.appSide.GetSnapshot(0)
		} else {
			rig.submit([]byte("probe"))
		}
		rig.h.take()
		if fault == "down-cold" {
			return false
		}
	}
	script, idleKill, herr := faultScript(fault)
	if r != nil {
		if idleKill {
			r.killAll()
			time.Sleep(3 * time.Millisecond)
		}
		r.setScript(script)
	}
	return herr
}

// ---------------------------------------------------------------- cases

func (w *World) ptxs(shape string) [][]byte {
	if shape == "large" {
		b := make([]byte, 1<<20)
		w.rng.Read(b)
		return [][]byte{b, {}, {0xff, 0xfe}}
	}
	return w.txsOf(shape)
}

func (w *World) runCommitCase(rig *proxyRig, c codecCase, k int) map[string]interface{} {
	vals := w.parts[:3]
	ps := []*peers.Peer{}
	for _, p := range vals {
		ps = append(ps, p.Peer)
	}
	fh := make([]byte, 32)
	w.rng.Read(fh)
	b := hg.NewBlock(k, k+1, fh, ps, w.ptxs(c.s("txs")), w.itxsOf(c.s("itxs"), vals[0]), int64(1600000000+k))
	s, _ := b.Sign(vals[0].Key)
	b.SetSignature(s)
	var resp proxy.CommitResponse
	switch c.s("sh") {
	case "nil":
		resp.StateHash = nil
	case "empty":
		resp.StateHash = []byte{}
	case "bin32":
		resp.StateHash = make([]byte, 32)
		w.rng.Read(resp.StateHash)
	case "large":
		resp.StateHash = make([]byte, 1<<19)
		w.rng.Read(resp.StateHash)
	}
	switch c.s("rcpt") {
	case "nil":
		resp.InternalTransactionReceipts = nil
	case "empty":
		resp.InternalTransactionReceipts = []hg.InternalTransactionReceipt{}
	case "some":
		its := w.itxsOf("three", vals[1])
		rc := []hg.InternalTransactionReceipt{}
		for i := range its {
			if i%2 == 0 {
				rc = append(rc, its[i].AsAccepted())
			} else {
				rc = append(rc, its[i].AsRefused())
			}
		}
		resp.InternalTransactionReceipts = rc
	}
	herr := rig.arm(rig.toApp, c.s("fault"))
	rig.h.reset(resp, nil, herr)
	sentHex, sentPayload := b.Hex(), blockPayload(b)
	got, err := rig.appSide.CommitBlock(*b)
	runs := rig.h.take()
	seen := []interface{}{}
	okRuns := []string{}
	for _, r := range runs {
		seen = append(seen, map[string]interface{}{"h": r.BlockHex, "p": r.BlockPayload, "err": r.Err, "resp": r.Resp})
		if !r.Err {
			okRuns = append(okRuns, r.Resp)
		}
	}
	o := map[string]interface{}{"ok": err == nil, "sent_h": sentHex, "sent_p": sentPayload, "runs": seen,
		"resp_sent": respDigest(resp), "resp_got": "", "herr": herr}
	if err == nil {
		o["resp_got"] = respDigest(got)
	} else {
		o["errmsg"] = err.Error()
	}
	return o
}

func (w *World) runSnapshotCase(rig *proxyRig, c codecCase, k int) map[string]interface{} {
	var snap []byte
	switch c.s("size") {
	case "nil":
		snap = nil
	case "empty":
		snap = []byte{}
	case "bin":
		snap = []byte{0xff, 0x00, 0x80, 0x22, 0x5c, 0x0a}
	case "large":
		snap = make([]byte, 1<<20)
		w.rng.Read(snap)
	}
	want := dig(snap) + fmt.Sprint(len(snap))
	// GetSnapshot: application -> Babble
	herr := rig.arm(rig.toApp, c.s("fault"))
	rig.h.reset(proxy.CommitResponse{}, snap, herr)
	got, err := rig.appSide.GetSnapshot(k)
	runs1 := rig.h.take()
	// Restore: Babble -> application
	rig.arm(rig.toApp, c.s("fault"))
	rig.h.reset(proxy.CommitResponse{}, snap, herr)
	rerr := rig.appSide.Restore(snap)
	runs2 := rig.h.take()
	seenRestore := []string{}
	okRestore := 0
	for _, r := range runs2 {
		if !r.Err {
			seenRestore = append(seenRestore, r.Snap)
			okRestore++
		}
	}
	okGet := 0
	for _, r := range runs1 {
		if !r.Err {
			okGet++
		}
	}
	return map[string]interface{}{"get_ok": err == nil, "get_same": err != nil || dig(got)+fmt.Sprint(len(got)) == want, "get_runs_ok": okGet,
		"restore_ok": rerr == nil, "restore_seen": seenRestore, "restore_runs_ok": okRestore, "want": want, "herr": herr}
}

func (w *World) runSubmitCase(rig *proxyRig, c codecCase, k int) map[string]interface{} {
	rig.takeReceived()
	sent := []interface{}{}
	acked := []string{}
	// the client reuses one scratch buffer for all its transactions
	scratch := make([]byte, 1<<20)
	for i := 0; i < 5; i++ {
		n := 0
		switch c.s("shape") {
		case "empty":
			n = 0
		case "ascii":
			n = copy(scratch, []byte(fmt.Sprintf("plain text transaction %d of case %d", i, k)))
		case "binary":
			n = copy(scratch, append([]byte{0xff, 0x00, 0xfe, 0x80, 0x0a, 0x22, 0x5c}, byte(i), byte(k), byte(k>>8)))
		case "large":
			n = len(scratch)
			w.rng.Read(scratch)
		}
		body := scratch[:n]
		id := dig(body) + fmt.Sprintf(":%d", len(body))
		if i == 2 {
			rig.arm(rig.toBabble, c.s("fault"))
		}
		err := rig.submit(body)
		sent = append(sent, map[string]interface{}{"id": id, "ok": err == nil})
		if err == nil {
			acked = append(acked, id)
		}
		// the buffer is wiped before the next use
		for j := 0; j < n; j++ {
			scratch[j] = 0xaa
		}
	}
	recv := []string{}
	for _, tx := range rig.takeReceived() {
		recv = append(recv, dig(tx)+fmt.Sprintf(":%d", len(tx)))
	}
	return map[string]interface{}{"sent": sent, "acked": acked, "received": recv}
}

func runProxyMode(o *Opts) *Summary {
	s := &Summary{Mode: "proxy", Extra: map[string]interface{}{}}
	raw, err := os.ReadFile(o.Arg)
	if err != nil {
		fmt.Fprintln(os.Stderr, "proxy: cannot read the case list:", err)
		os.Exit(2)
	}
	var lists map[string][]codecCase
	if err := json.Unmarshal(raw, &lists); err != nil {
		fmt.Fprintln(os.Stderr, "proxy: bad case list:", err)
		os.Exit(2)
	}
	w := NewWorld(o.Seed, 3)
	w.OpenTrace(o.Out)
	w.traceNo = 1
	w.Emit(0, "Init", map[string]interface{}{"nc": 1, "genesis": []int{1}, "nodes": []interface{}{}, "mode": "proxy", "seed": o.Seed}, nil)
	sock := newSocketRig(150 * time.Millisecond)
	mem := newInmemRig()
	rigOf := func(c codecCase) *proxyRig {
		if c.s("via") == "socket" {
			return sock
		}
		return mem
	}
	n, okWithFault, errs := 0, 0, 0
	emit := func(c codecCase, o map[string]interface{}) {
		x := map[string]interface{}{}
		for k, v := range c {
			x[k] = v
		}
		n++
		w.Emit(1, "Proxy", x, o)
	}
	commits := lists["commits"]
	w.rng.Shuffle(len(commits), func(i, j int) { commits[i], commits[j] = commits[j], commits[i] })
	if o.Steps > 0 && o.Steps < len(commits) {
		// quick tier: a seeded sample of the commit cases (the runner accounts for it)
		commits = commits[:o.Steps]
	}
	for k, c := range commits {
		out := w.runCommitCase(rigOf(c), c, k)
		rigOf(c).restore()
		if out["ok"].(bool) && c.s("fault") != "none" {
			okWithFault++
		}
		if !out["ok"].(bool) {
			errs++
		}
		emit(c, out)
	}
	for k, c := range lists["snapshots"] {
		emit(c, w.runSnapshotCase(rigOf(c), c, k))
		rigOf(c).restore()
	}
	for k, c := range lists["submits"] {
		emit(c, w.runSubmitCase(rigOf(c), c, k))
		rigOf(c).restore()
	}
	s.Traces = 1
	s.Lines = w.lines
	s.Steps = n
	s.Extra["cases_executed"] = n
	s.Extra["commit_cases_executed"] = len(commits)
	s.Extra["commit_success_despite_fault"] = okWithFault
	s.Extra["commit_errors_reported"] = errs
	w.CloseTrace()
	return s
}
