package main

// "orders" mode (C03): one DAG (recorded from a real gossip run), many
// hashgraph instances fed the same events under different topological orders,
// batchings of the consensus passes, stores and cache sizes, and
// downward-closed subsets.  Every instance logs its complete output; TLC
// compares each with the reference instance and re-executes the reference
// insertion with the specification.

import (
	"fmt"
	"os"
	"path/filepath"
	"sort"
	"time"

	hg "github.com/mosaicnetworks/babble/src/hashgraph"
)

func init() { modes["orders"] = runOrders }

type hgInst struct {
	w          *World
	h          *hg.Hashgraph
	st         hg.Store
	blocks     []*hg.Block
	digs       []string
	evs        [][]string
	dir        string
	outOfOrder int // passes after which a later pending round was decided while an earlier one was not
}

func (w *World) newInst(genesis []int, kind string, cache int, dir string) (*hgInst, error) {
	in := &hgInst{w: w, dir: dir}
	st, err := w.NewStore(kind, cache, dir)
	if err != nil {
		return nil, err
	}
	in.st = st
	in.h = hg.NewHashgraph(st, func(b *hg.Block) error {
		in.blocks = append(in.blocks, b)
		in.digs = append(in.digs, bodyDigest(b))
		// the frame is certainly cached at commit time
		evs := []string{}
		if fr, err := in.st.GetFrame(b.RoundReceived()); err == nil {
			for _, fe := range fr.Events {
				evs = append(evs, w.idOf(fe.Core.Hex()))
			}
		}
		in.evs = append(in.evs, evs)
		return nil
	}, quietLogger())
	if err := in.h.Init(w.PeerSet(genesis)); err != nil {
		return nil, err
	}
	return in, nil
}

// feedFaulty inserts the events one by one (consensus after each), with frame
// writes failing for the events in [from, to) (decided rounds pile up in the
// pending queue) and one more single failure of `method` (its after-th call)
// armed right after the outage.  Errors of the consensus passes are what the
// node would log; feeding goes on.
func (in *hgInst) feedFaulty(order []*EvInfo, fs *FaultStore, from, to int, method string, after int) (passErrors int, err error) {
	defer func() {
		if r := recover(); r != nil {
			err = fmt.Errorf("panic: %v", r)
		}
	}()
	for i, inf := range order {
		switch {
		case i >= from && i < to:
			fs.ArmBurst("SetFrame")
		case i == to:
			fs.Disarm()
			fs.Arm(method, after)
		}
		if e := in.h.InsertEventAndRunConsensus(freshEvent(inf.Ev), true); e != nil {
			if _, gerr := in.st.GetEvent(inf.Hash); gerr != nil {
				return passErrors, fmt.Errorf("insert %s: %v", inf.ID, e)
			}
			passErrors++
		}
	}
	fs.Disarm()
	return passErrors, nil
}

func (in *hgInst) close() {
	in.st.Close()
	if in.dir != "" {
		os.RemoveAll(in.dir)
	}
}

func freshEvent(ev *hg.Event) *hg.Event {
	return &hg.Event{Body: ev.Body, Signature: ev.Signature}
}

// feed inserts the events in the given order; batch = 1: consensus after each
// insert; batch = k: after every k inserts; batch = 0: once at the end.
func (in *hgInst) feed(order []*EvInfo, batch int) (err error) {
	defer func() {
		if r := recover(); r != nil {
			err = fmt.Errorf("panic: %v", r)
		}
	}()
	run := func() error {
		if err := in.h.DivideRounds(); err != nil {
			return err
		}
		if err := in.h.DecideFame(); err != nil {
			return err
		}
		if err := in.h.DecideRoundReceived(); err != nil {
			return err
		}
		return in.h.ProcessDecidedRounds()
	}
	for i, inf := range order {
		ev := freshEvent(inf.Ev)
		if batch == 1 {
			if err := in.h.InsertEventAndRunConsensus(ev, true); err != nil {
				return fmt.Errorf("insert %s: %v", inf.ID, err)
			}
			pend := in.h.PendingRounds.GetOrderedPendingRounds()
			for k := 1; k < len(pend); k++ {
				if !pend[k-1].Decided && pend[k].Decided {
					in.outOfOrder++
				}
			}
			continue
		}
		if err := in.h.InsertEvent(ev, true); err != nil {
			return fmt.Errorf("insert %s: %v", inf.ID, err)
		}
		if batch > 1 && (i+1)%batch == 0 {
			if err := run(); err != nil {
				return err
			}
		}
	}
	if batch != 1 {
		return run()
	}
	return nil
}

// output projects the complete consensus output of the instance.
func (in *hgInst) output(order []*EvInfo) map[string]interface{} {
	vals := []interface{}{}
	rrs := []interface{}{}
	partial := false
	// round-received as recorded in the rounds (an event reloaded from the
	// database has lost its private fields; the rounds keep the result)
	rrOf := map[string]int{}
	for r := 0; r <= in.st.LastRound(); r++ {
		if ri, err := in.st.GetRound(r); err == nil {
			for _, h := range ri.ReceivedEvents {
				rrOf[h] = r
			}
		}
	}
	for _, inf := range order {
		if _, err := in.st.GetEvent(inf.Hash); err != nil {
			vals = append(vals, map[string]interface{}{"e": inf.ID, "r": -9, "w": false, "l": -9})
			continue
		}
		// the memoised functions of the hashgraph (recomputed from the store if evicted)
		r, err1 := in.h.VRound(inf.Hash)
		l, err2 := in.h.VLamport(inf.Hash)
		wit, err3 := in.h.VWitness(inf.Hash)
		if err1 != nil || err2 != nil || err3 != nil {
			// not observable any more with this cache size (evicted round
			// records): an error, not a result
			partial = true
			continue
		}
		vals = append(vals, map[string]interface{}{"e": inf.ID, "r": r, "w": wit, "l": l})
		if rr, ok := rrOf[inf.Hash]; ok {
			rrs = append(rrs, map[string]interface{}{"e": inf.ID, "rr": rr})
		}
	}
	fame := []interface{}{}
	for r := 0; r <= in.st.LastRound(); r++ {
		ri, err := in.st.GetRound(r)
		if err != nil {
			partial = true
			continue
		}
		hs := []string{}
		for h := range ri.CreatedEvents {
			hs = append(hs, h)
		}
		sort.Slice(hs, func(i, j int) bool { return in.w.idOf(hs[i]) < in.w.idOf(hs[j]) })
		for _, h := range hs {
			if w, f := fameOf(ri, h); w {
				fame = append(fame, map[string]interface{}{"e": in.w.idOf(h), "f": f, "r": r})
			}
		}
	}
	blocks := []interface{}{}
	for i, b := range in.blocks {
		evs := in.evs[i]
		ts, big := in.w.RelTS(b.Timestamp())
		blocks = append(blocks, map[string]interface{}{"idx": b.Index(), "rr": b.RoundReceived(), "dig": in.digs[i],
			"fh": hx(b.FrameHash()), "evs": evs, "txs": in.w.txIDs2(b.Transactions()), "ts": ts, "big": big})
	}
	lcr := -1
	if in.h.LastConsensusRound != nil {
		lcr = *in.h.LastConsensusRound
	}
	return map[string]interface{}{"vals": vals, "rr": rrs, "fame": fame, "blocks": blocks, "lcr": lcr,
		"undet": len(in.h.UndeterminedEvents), "err": "", "partial": partial}
}

// a random topological order: repeatedly pick a random event whose parents
// are already placed
func (w *World) randomTopo(all []*EvInfo, bias string) []*EvInfo {
	placed := map[string]bool{"": true}
	res := []*EvInfo{}
	rest := append([]*EvInfo{}, all...)
	for len(rest) > 0 {
		ready := []int{}
		for i, e := range rest {
			if placed[e.SP] && placed[e.OP] {
				ready = append(ready, i)
			}
		}
		if len(ready) == 0 {
			panic("no ready event: DAG not closed")
		}
		var pick int
		switch bias {
		case "creator": // creator-major: lowest creator number first
			pick = ready[0]
			for _, i := range ready {
				if rest[i].C < rest[pick].C || (rest[i].C == rest[pick].C && rest[i].I < rest[pick].I) {
					pick = i
				}
			}
		case "rcreator":
			pick = ready[0]
			for _, i := range ready {
				if rest[i].C > rest[pick].C || (rest[i].C == rest[pick].C && rest[i].I < rest[pick].I) {
					pick = i
				}
			}
		case "late": // keep one creator's events as late as possible
			pick = ready[0]
			for _, i := range ready {
				if rest[i].C != 1 {
					pick = i
					break
				}
			}
			if w.rng.Intn(3) == 0 {
				pick = ready[w.rng.Intn(len(ready))]
			}
		default:
			pick = ready[w.rng.Intn(len(ready))]
		}
		e := rest[pick]
		placed[e.ID] = true
		res = append(res, e)
		rest = append(rest[:pick], rest[pick+1:]...)
	}
	return res
}

func idsOf(order []*EvInfo) []string {
	res := make([]string, len(order))
	for i, e := range order {
		res[i] = e.ID
	}
	return res
}

// funkyDAG: the repository's "funky" hand-drawn hashgraph (fame of early rounds
// decided through later and coin rounds, rounds decided out of order) built
// with real keys, followed by ordinary round-robin gossip.
func funkyDAG(w *World, pre, extra int) {
	type play struct {
		to, index int
		sp, op    string
		name      string
	}
	idx := map[string]string{"": ""}
	last := map[int]string{}
	seq := map[int]int{}
	mk := func(to, index int, sp, op, name string) {
		p := w.parts[to]
		ev := hg.NewEvent([][]byte{[]byte(name)}, nil, nil, []string{idx[sp], idx[op]}, p.Pub, index)
		ev.Body.Timestamp = w.tsBase + int64(len(w.events))
		if err := ev.Sign(p.Key); err != nil {
			panic(err)
		}
		w.NewTx([]byte(name))
		w.Register(ev)
		idx[name] = ev.Hex()
		last[to] = name
		seq[to] = index
	}
	for i := 0; i < 4; i++ {
		mk(i, 0, "", "", fmt.Sprintf("g%d", i))
	}
	// an ordinary, well connected prefix (so that early blocks - possible anchors -
	// lie below the funky region), then a layer w00..w03 on which the plays build
	if pre > 0 {
		for rep := 0; rep < pre; rep++ {
			for i := 0; i < 4; i++ {
				mk(i, seq[i]+1, last[i], last[(i+3)%4], fmt.Sprintf("p%d_%d", rep, i))
			}
		}
	}
	for i := 0; i < 4; i++ {
		op := ""
		if pre > 0 {
			op = last[(i+3)%4]
		}
		base := last[i]
		mk(i, seq[i]+1, base, op, fmt.Sprintf("w0%d", i))
	}
	plays := []play{
		{2, 1, "w02", "w03", "a23"}, {1, 1, "w01", "a23", "a12"}, {0, 1, "w00", "", "a00"}, {1, 2, "a12", "a00", "a10"},
		{2, 2, "a23", "a12", "a21"}, {3, 1, "w03", "a21", "w13"}, {2, 3, "a21", "w13", "w12"}, {1, 3, "a10", "w12", "w11"},
		{0, 2, "a00", "w11", "w10"}, {2, 4, "w12", "w11", "b21"}, {3, 2, "w13", "b21", "w23"}, {1, 4, "w11", "w23", "w21"},
		{0, 3, "w10", "", "b00"}, {1, 5, "w21", "b00", "c10"}, {2, 5, "b21", "c10", "w22"}, {0, 4, "b00", "w22", "w20"},
		{1, 6, "c10", "w20", "w31"}, {2, 6, "w22", "w31", "w32"}, {0, 5, "w20", "w32", "w30"}, {3, 3, "w23", "w32", "w33"},
		{1, 7, "w31", "w33", "d13"}, {0, 6, "w30", "d13", "w40"}, {1, 8, "d13", "w40", "w41"}, {2, 7, "w32", "w41", "w42"},
		{3, 4, "w33", "w42", "w43"}, {2, 8, "w42", "w43", "e23"}, {1, 9, "w41", "e23", "w51"},
	}
	for _, p := range plays {
		mk(p.to, seq[p.to]+1, p.sp, p.op, p.name) // (the play's self-parent is always the creator's last event)
	}
	// ordinary continuation: creators take turns, each on top of the previous creator's last event
	prev := 1
	for k := 0; k < extra; k++ {
		to := (prev + 1 + w.rng.Intn(3)) % 4
		if to == prev {
			to = (to + 1) % 4
		}
		mk(to, seq[to]+1, last[to], last[prev], fmt.Sprintf("x%d", k))
		prev = to
	}
}

func runOrders(o *Opts) *Summary {
	s := &Summary{Mode: "orders", Extra: map[string]interface{}{}}
	var w *World
	instances, unsupported := 0, 0
	oooTotal := 0
	screened, screenHits := 0, 0
	for t := 0; t < o.Traces; t++ {
		n := o.N
		if n == 0 {
			n = 1 + t%6
		}
		w2 := NewWorld(o.Seed*1000+int64(t), n)
		if w == nil {
			w2.OpenTrace(os.DevNull)
		}
		// phase 1: grow a DAG with real cores (trace discarded), or draw the funky one
		w2.OpenTrace(os.DevNull)
		w2.tsBase = time.Now().Unix()
		if o.Sched == "funky" {
			n = 4
			w2 = NewWorld(o.Seed*1000+int64(t), 4)
			w2.OpenTrace(os.DevNull)
			w2.tsBase = time.Now().Unix()
			funkyDAG(w2, (t%3)*3, 20+w2.rng.Intn(30))
		} else if o.Sched == "randdag" {
			// synthetic pairwise gossip (one event per exchange, on top of the other
			// side's head).  Candidates are screened - per-event against once-at-the-end
			// insertion - and the first one on which the two disagree is kept (the last
			// candidate otherwise); the verdict is TLC's, on the recorded instances.
			n = 4 + t%2
			for cand := 0; ; cand++ {
				if t%3 == 1 {
					n = 4
				}
				w2 = NewWorld(o.Seed*100000+int64(t)*1000+int64(cand), n)
				w2.OpenTrace(os.DevNull)
				w2.tsBase = time.Now().Unix()
				// (every third trace: no screening, but creator 1 lags - after the first quarter
				// of the steps nobody builds on its events any more, so that they can be
				// inserted long after the rounds they belong to were decided)
				if t%3 == 1 {
					n = 4
				}
				nsteps := o.Steps + w2.rng.Intn(o.Steps/3+1)
				if t%3 == 1 {
					nsteps = 2 * nsteps
				}
				randGossipDAG(w2, n, nsteps, t%3 == 1)
				if t%3 == 1 {
					break
				}
				screened++
				// t%3 == 0: any difference; t%3 == 2: a difference in round-received or
				// blocks while the fame tables agree (not the known first-descendant kind)
				anyDiff, fameSame := batchingMatters(w2, n)
				if cand+1 >= o.Cache || (anyDiff && (t%3 == 0 || fameSame)) {
					if cand+1 < o.Cache {
						screenHits++
					}
					break
				}
				w2.CloseTrace()
			}
		} else {
			cn := NewCoreNet(w2, CoreOpts{N: n, Store: "inmem", Cache: 100000})
			sc := makeSched(w2, schedNames[t%len(schedNames)], n, o.Steps)
			for k := 0; k < o.Steps; k++ {
				if w2.rng.Float64() < o.TxP {
					tgt := cn.nodes[w2.rng.Intn(len(cn.nodes))]
					_, payload := w2.RandTx()
					tgt.core.AddTransactions([][]byte{payload})
				}
				if n == 1 {
					cn.MonologueStep(cn.nodes[0], false)
					continue
				}
				a, b, limit, ok := sc.pick(k)
				if ok {
					cn.SyncStep(cn.byNum[a], cn.byNum[b], limit, false)
				}
			}
			// final all-to-all so that the DAG is one connected history
			for _, a := range cn.nodes {
				for _, b := range cn.nodes {
					if a != b {
						cn.SyncStep(a, b, 0, false)
					}
				}
			}
			cn.Close()
		}
		w2.CloseTrace()
		// phase 2: the real trace
		if w == nil {
			w2.OpenTrace(o.Out)
			w2.lines = 0
		} else {
			w2.out, w2.outF, w2.lines = w.out, w.outF, w.lines
		}
		w2.seq = 0
		w = w2
		w.traceNo = t + 1
		gen := []int{}
		for i := 1; i <= n; i++ {
			gen = append(gen, i)
		}
		all := []*EvInfo{}
		for _, inf := range w.events {
			all = append(all, inf)
		}
		sort.Slice(all, func(i, j int) bool { return all[i].Seq < all[j].Seq })
		// creation order may not be topological w.r.t. registration; use a topological sort seeded by Seq
		ref := w.randomTopo(all, "creator")
		w.Emit(0, "Init", map[string]interface{}{"nc": n, "genesis": gen, "nodes": []interface{}{map[string]interface{}{"n": 1, "me": 0, "store": "inmem", "cache": 100000}},
			"delay": 6, "rootdepth": hg.ROOT_DEPTH, "coin": 4, "mode": "orders", "events": len(all)}, nil)
		for _, inf := range ref {
			w.EmitCreate(inf)
		}
		in0, _ := w.newInst(gen, "inmem", 100000, "")
		if err := in0.feed(ref, 1); err != nil {
			panic("reference instance failed: " + err.Error())
		}
		out0 := in0.output(ref)
		rounds := []interface{}{}
		{
			// per-round view for the conformance check
			byR := map[int][]interface{}{}
			for _, f := range out0["fame"].([]interface{}) {
				m := f.(map[string]interface{})
				byR[m["r"].(int)] = append(byR[m["r"].(int)], map[string]interface{}{"e": m["e"], "f": m["f"]})
			}
			for r := 0; r <= in0.st.LastRound(); r++ {
				ri, err := in0.st.GetRound(r)
				if err != nil {
					continue
				}
				ws := byR[r]
				if ws == nil {
					ws = []interface{}{}
				}
				rounds = append(rounds, map[string]interface{}{"r": r, "dec": ri.VDecided(), "ws": ws})
			}
		}
		out0["rounds"] = rounds
		out0["outOfOrder"] = in0.outOfOrder
		oooTotal += in0.outOfOrder
		w.Emit(1, "HgInsert", map[string]interface{}{"ins": idsOf(ref)}, out0)
		// fast-sync continuation at hashgraph level: reset a fresh instance from
		// each block of the reference (block + frame through their wire encoding),
		// feed it the events above the frame, compare what it delivers
		nreset := 0
		for _, b := range in0.blocks {
			if nreset >= 14 {
				continue
			}
			fr, err := in0.st.GetFrame(b.RoundReceived())
			if err != nil {
				continue
			}
			fb, err1 := fr.Marshal()
			bb, err2 := b.Marshal()
			if err1 != nil || err2 != nil {
				continue
			}
			fr2, b2 := new(hg.Frame), new(hg.Block)
			if fr2.Unmarshal(fb) != nil || b2.Unmarshal(bb) != nil {
				continue
			}
			in, err := w.newInst(gen, "inmem", 100000, "")
			if err != nil {
				panic(err)
			}
			rerr := in.h.Reset(b2, fr2)
			top := map[int]int{} // highest index per creator held after the reset
			for c := 1; c <= n; c++ {
				top[c] = -1
			}
			for _, r := range fr2.Roots {
				for _, fe := range r.Events {
					if inf := w.events[fe.Core.Hex()]; inf != nil && inf.I > top[inf.C] {
						top[inf.C] = inf.I
					}
				}
			}
			for _, fe := range fr2.Events {
				if inf := w.events[fe.Core.Hex()]; inf != nil && inf.I > top[inf.C] {
					top[inf.C] = inf.I
				}
			}
			fed, failed := 0, ""
			if rerr != nil {
				failed = "reset: " + rerr.Error()
			}
			for _, inf := range ref {
				if failed != "" {
					break
				}
				if inf.I <= top[inf.C] {
					continue
				}
				if err := in.h.InsertEventAndRunConsensus(freshEvent(inf.Ev), true); err != nil {
					if hg.IsNormalSelfParentError(err) {
						continue
					}
					failed = inf.ID + ": " + err.Error() // the obligation stops at the first event it cannot insert
					break
				}
				fed++
			}
			outR := in.output([]*EvInfo{})
			outR["stopped"] = failed
			x := map[string]interface{}{"kind": "reset", "store": "inmem", "cache": 100000, "batch": 1, "subset": false,
				"nins": fed, "order": "ref", "reset": b.Index(), "reset_rr": b.RoundReceived()}
			w.Emit(1, "Instance", x, outR)
			in.close()
			instances++
			nreset++
		}
		in0.close()
		instances++

		type variant struct {
			kind, store  string
			cache, batch int
			order        []*EvInfo
			subset       bool
		}
		vs := []variant{}
		norders := 6
		if o.Arg == "thorough" {
			norders = 40
		}
		for k := 0; k < norders; k++ {
			vs = append(vs, variant{"random", "inmem", 100000, 1, w.randomTopo(all, ""), false})
		}
		vs = append(vs, variant{"rcreator", "inmem", 100000, 1, w.randomTopo(all, "rcreator"), false})
		vs = append(vs, variant{"late", "inmem", 100000, 1, w.randomTopo(all, "late"), false})
		vs = append(vs, variant{"late", "inmem", 100000, 1, w.randomTopo(all, "late"), false})
		for _, b := range []int{0, 2, 7, 25} {
			vs = append(vs, variant{"batch", "inmem", 100000, b, w.randomTopo(all, ""), false})
			vs = append(vs, variant{"batch-ref", "inmem", 100000, b, ref, false})
		}
		for _, c := range []int{len(all) + 50, 2 * len(all), 5000} {
			vs = append(vs, variant{"badger", "badger", c, 1, w.randomTopo(all, ""), false})
		}
		vs = append(vs, variant{"badger-small", "badger", 60, 1, ref, false})
		vs = append(vs, variant{"inmem-small", "inmem", len(all) + 10, 1, w.randomTopo(all, ""), false})
		for k := 0; k < 4; k++ {
			ord := w.randomTopo(all, "")
			cut := 1 + w.rng.Intn(len(ord))
			vs = append(vs, variant{"subset", "inmem", 100000, 1, ord[:cut], true})
		}
		// store-fault variants: same DAG, reference order, per-event consensus
		nfaulty := 6
		if o.Arg == "thorough" {
			nfaulty = 30
		}
		for k := 0; k < nfaulty && len(ref) > 30; k++ {
			in, err := w.newInst(gen, "inmem", 100000, "")
			if err != nil {
				panic(err)
			}
			fs := NewFaultStore(in.st)
			in.st = fs
			in.h.Store = fs
			from := 5 + w.rng.Intn(len(ref)/2)
			to := from + 10 + w.rng.Intn(len(ref)/3+1)
			if to > len(ref)-2 {
				to = len(ref) - 2
			}
			method := []string{"SetFrame", "SetFrame", "SetBlock", "AddConsensusEvent"}[w.rng.Intn(4)]
			after := 1 + w.rng.Intn(3)
			perr, ferr := in.feedFaulty(ref, fs, from, to, method, after)
			out := in.output(ref)
			if ferr != nil {
				out["err"] = ferr.Error()
				unsupported++
			}
			plan := fmt.Sprintf("SetFrame-outage[%d,%d)+%s#%d", from, to, method, after)
			x := map[string]interface{}{"kind": "faulty", "store": "inmem+faults", "cache": 100000, "batch": 1, "subset": false,
				"nins": len(ref), "order": "ref", "faulty": true, "plan": plan, "pass_errors": perr, "fired": len(fs.TakeFired())}
			w.Emit(1, "Instance", x, out)
			if k == 0 && len(s.Samples) < 6 {
				s.Samples = append(s.Samples, map[string]interface{}{"trace": t + 1, "variant": x, "blocks": len(in.blocks)})
			}
			in.close()
			instances++
		}
		for vi, v := range vs {
			dir := ""
			if v.store == "badger" {
				dir = filepath.Join(o.Dir, fmt.Sprintf("inst_%d_%d", t, vi))
				os.RemoveAll(dir)
			}
			in, err := w.newInst(gen, v.store, v.cache, dir)
			if err != nil {
				panic(err)
			}
			ferr := in.feed(v.order, v.batch)
			out := in.output(v.order)
			if ferr != nil {
				out["err"] = ferr.Error()
				unsupported++
			}
			x := map[string]interface{}{"kind": v.kind, "store": v.store, "cache": v.cache, "batch": v.batch,
				"subset": v.subset, "nins": len(v.order), "order": digest([]byte(fmt.Sprint(idsOf(v.order))))}
			if v.batch != 1 {
				x["ids"] = idsOf(v.order) // (the specification re-executes the same batching when the output differs)
			}
			w.Emit(1, "Instance", x, out)
			if len(s.Samples) < 4 && (vi == 0 || v.kind == "batch" || v.kind == "subset") {
				s.Samples = append(s.Samples, map[string]interface{}{"trace": t + 1, "n": n, "events": len(all), "variant": x,
					"blocks": len(in.blocks), "first_ids": idsOf(v.order)[:minInt(8, len(v.order))]})
			}
			in.close()
			instances++
		}
		s.Events += len(all)
		s.Blocks += len(out0["blocks"].([]interface{}))
	}
	s.Traces = o.Traces
	s.Steps = instances
	s.Lines = w.lines
	s.Extra["instances"] = instances
	s.Extra["passes_with_rounds_decided_out_of_order"] = oooTotal
	s.Extra["unsupported_configurations"] = unsupported
	s.Extra["random_dags_screened"] = screened
	s.Extra["random_dags_where_batching_matters"] = screenHits
	w.CloseTrace()
	return s
}

func minInt(a, b int) int {
	if a < b {
		return a
	}
	return b
}

func maxInt(a, b int) int {
	if a > b {
		return a
	}
	return b
}

// randGossipDAG: n creators; after the n parentless first events, each step one
// creator puts an event on top of its own head and another creator's head.
func randGossipDAG(w *World, n, steps int, laggard bool) {
	heads := make([]string, n)
	seq := make([]int, n)
	mk := func(c int, sp, op string) {
		p := w.parts[c]
		idx := 0
		if sp != "" {
			idx = seq[c] + 1
		}
		name := fmt.Sprintf("r%d_%d", c, idx)
		ev := hg.NewEvent([][]byte{[]byte(name)}, nil, nil, []string{sp, op}, p.Pub, idx)
		ev.Body.Timestamp = w.tsBase + int64(len(w.events))*3 + int64(w.rng.Intn(7))
		if err := ev.Sign(p.Key); err != nil {
			panic(err)
		}
		w.NewTx([]byte(name))
		w.Register(ev)
		heads[c], seq[c] = ev.Hex(), idx
	}
	for c := 0; c < n; c++ {
		mk(c, "", "")
	}
	for k := 0; k < steps; k++ {
		c := w.rng.Intn(n)
		o := w.rng.Intn(n)
		for o == c || (laggard && o == 0 && k >= steps/4) {
			o = w.rng.Intn(n)
		}
		mk(c, heads[c], heads[o])
	}
}

// batchingMatters: a cheap screen (not an oracle): do a per-event and an
// at-the-end instance of this DAG report different fame or blocks?
func batchingMatters(w *World, n int) (anyDiff, fameSame bool) {
	gen := []int{}
	for i := 1; i <= n; i++ {
		gen = append(gen, i)
	}
	all := []*EvInfo{}
	for _, inf := range w.events {
		all = append(all, inf)
	}
	sort.Slice(all, func(i, j int) bool { return all[i].Seq < all[j].Seq })
	key := func(batch int) (string, string) {
		in, err := w.newInst(gen, "inmem", 100000, "")
		if err != nil {
			return "err", ""
		}
		defer in.close()
		if err := in.feed(all, batch); err != nil {
			return "err:" + err.Error(), ""
		}
		out := in.output(all)
		// (fame: the famous ones only - a late witness may stay undecided in one and be
		// decided not famous in the other)
		famous := []string{}
		for _, f := range out["fame"].([]interface{}) {
			m := f.(map[string]interface{})
			if m["f"] == "T" {
				famous = append(famous, fmt.Sprint(m["e"]))
			}
		}
		return fmt.Sprint(out["blocks"], out["rr"]), fmt.Sprint(famous)
	}
	a1, f1 := key(1)
	a0, f0 := key(0)
	return a1 != a0 || f1 != f0, f1 == f0
}
