package main

// "codec" mode (C15): every case of spec/Codec.tla (written out by TLC as
// codec_cases.json) is executed against the real encoders and decoders:
//   events : ToWire / ReadWireInfo on a second hashgraph that knows the parents,
//            the same through the JSON transport form, Badger store + reopen,
//            reopened store -> wire -> second hashgraph
//   blocks : JSON transport form (FastForwardResponse), Badger store + reopen
//   frames : JSON transport form, Badger store + reopen, the same frame built
//            again with its maps filled in the opposite order
// One "Codec" line per case: hash, signature validity and payload before and
// after.

import (
	"bytes"
	"encoding/hex"
	"encoding/json"
	"fmt"
	"os"
	"path/filepath"
	"sort"
	"strings"

	hg "github.com/mosaicnetworks/babble/src/hashgraph"
	bnet "github.com/mosaicnetworks/babble/src/net"
	"github.com/mosaicnetworks/babble/src/peers"
)

func init() { modes["codec"] = runCodec }

type codecCase map[string]interface{}

func (c codecCase) s(k string) string { v, _ := c[k].(string); return v }
func (c codecCase) i(k string) int    { v, _ := c[k].(float64); return int(v) }

func (w *World) txsOf(shape string) [][]byte {
	switch shape {
	case "nil":
		return nil
	case "empty":
		return [][]byte{}
	case "one-empty":
		return [][]byte{{}}
	case "binary":
		return [][]byte{{0xff, 0x00, 0xfe, 0x80, 0x0a, 0x22, 0x5c}}
	}
	res := [][]byte{}
	for k := 0; k < 20; k++ {
		b := make([]byte, w.rng.Intn(40))
		w.rng.Read(b)
		res = append(res, b)
	}
	return res
}

// respelled: the same peer with its public key written 0x + lower-case hex (a valid
// spelling that must survive every conversion untouched: the string is part of the
// hashed and signed bytes)
func respelled(p *peers.Peer) *peers.Peer {
	q := *p
	if len(q.PubKeyHex) > 2 {
		q.PubKeyHex = "0x" + strings.ToLower(q.PubKeyHex[2:])
	}
	return &q
}

func (w *World) itxsOf(shape string, signer *Part) []hg.InternalTransaction {
	n := 0
	switch shape {
	case "nil":
		return nil
	case "empty":
		return []hg.InternalTransaction{}
	case "one":
		n = 1
	case "three":
		n = 3
	}
	res := []hg.InternalTransaction{}
	for k := 0; k < n; k++ {
		var t hg.InternalTransaction
		if k%2 == 0 {
			t = hg.NewInternalTransactionJoin(*signer.Peer)
		} else {
			// (every second request names its peer in the lower-case spelling)
			t = hg.NewInternalTransactionLeave(*respelled(signer.Peer))
		}
		t.Sign(signer.Key)
		res = append(res, t)
	}
	return res
}

func (w *World) sigsOf(shape string, signer *Part) []hg.BlockSignature {
	n := 0
	switch shape {
	case "nil":
		return nil
	case "empty":
		return []hg.BlockSignature{}
	case "one":
		n = 1
	case "three":
		n = 3
	}
	res := []hg.BlockSignature{}
	for k := 0; k < n; k++ {
		b := hg.NewBlock(k, k+1, []byte("framehash"), []*peers.Peer{signer.Peer}, [][]byte{{byte(k)}}, nil, 0)
		bs, err := b.Sign(signer.Key)
		if err != nil {
			panic(err)
		}
		res = append(res, bs)
	}
	return res
}

func payloadDigest(e *hg.Event) string {
	var b bytes.Buffer
	for _, t := range e.Transactions() {
		fmt.Fprintf(&b, "t%d:%s;", len(t), hex.EncodeToString(t))
	}
	fmt.Fprintf(&b, "|n=%d|", len(e.Transactions()))
	for _, t := range e.InternalTransactions() {
		h, _ := t.Body.Hash()
		fmt.Fprintf(&b, "i:%s:%s;", hex.EncodeToString(h), t.Signature)
	}
	for _, s := range e.BlockSignatures() {
		fmt.Fprintf(&b, "s:%d:%s:%s;", s.Index, hex.EncodeToString(s.Validator), s.Signature)
	}
	fmt.Fprintf(&b, "|c=%s|i=%d|ts=%d|sp=%s|op=%s", e.Creator(), e.Index(), e.Body.Timestamp, e.SelfParent(), e.OtherParent())
	return dig(b.Bytes())
}

func safeVerify(e *hg.Event) (ok bool) {
	defer func() {
		if r := recover(); r != nil {
			ok = false
		}
	}()
	ok, err := e.Verify()
	return ok && err == nil
}

type codecOut struct {
	h0, h1, p0, p1 string
	s0, s1         bool
	err            string
}

func newHG(w *World, st hg.Store, all []int) *hg.Hashgraph {
	h := hg.NewHashgraph(st, hg.DummyInternalCommitCallback, quietLogger())
	if err := h.Init(w.PeerSet(all)); err != nil {
		panic(err)
	}
	return h
}

// event cases are run in batches: one sender store (Badger when the path goes
// through the database) and one receiver hashgraph per batch, one fresh
// creator per case
func (w *World) runEventBatch(cases []codecCase, dir string, emit func(c codecCase, o codecOut)) {
	all := []int{}
	for i := 1; i <= len(w.parts); i++ {
		all = append(all, i)
	}
	bdir := filepath.Join(dir, "codec_ev")
	os.RemoveAll(bdir)
	bs, err := hg.NewBadgerStore(1000, bdir, false, quietLogger())
	if err != nil {
		panic(err)
	}
	A := newHG(w, bs, all)
	B := newHG(w, hg.NewInmemStore(10000), all)
	helper := w.parts[0]
	o0 := hg.NewEvent(nil, nil, nil, []string{"", ""}, helper.Pub, 0)
	o0.Sign(helper.Key)
	for _, h := range []*hg.Hashgraph{A, B} {
		cp := *o0
		if err := h.InsertEventAndRunConsensus(&cp, true); err != nil {
			panic(err)
		}
	}
	type pend struct {
		c   codecCase
		e   *hg.Event
		out codecOut
	}
	pends := []*pend{}
	for k, c := range cases {
		p := w.parts[1+k]
		sp, op, index := "", "", 0
		par := c.s("parents")
		if par == "self" || par == "self-other" {
			base := hg.NewEvent(nil, nil, nil, []string{"", ""}, p.Pub, 0)
			base.Sign(p.Key)
			for _, h := range []*hg.Hashgraph{A, B} {
				cp := *base
				if err := h.InsertEventAndRunConsensus(&cp, true); err != nil {
					panic(err)
				}
			}
			sp, index = base.Hex(), 1
		}
		if par == "self-other" || par == "other-only" {
			op = o0.Hex()
		}
		e := hg.NewEvent(w.txsOf(c.s("txs")), w.itxsOf(c.s("itxs"), p), w.sigsOf(c.s("sigs"), p), []string{sp, op}, p.Pub, index)
		if err := e.Sign(p.Key); err != nil {
			panic(err)
		}
		pd := &pend{c: c, e: e}
		pd.out.h0, pd.out.s0, pd.out.p0 = e.Hex(), safeVerify(e), payloadDigest(e)
		if err := A.InsertEventAndRunConsensus(e, true); err != nil {
			pd.out.err = "insert: " + err.Error()
		}
		pends = append(pends, pd)
	}
	// wire paths from the live sender
	finish := func(pd *pend, got *hg.Event, err error) {
		if err != nil {
			pd.out.err = err.Error()
			return
		}
		pd.out.h1, pd.out.s1, pd.out.p1 = got.Hex(), safeVerify(got), payloadDigest(got)
	}
	viaWire := func(src *hg.Event, throughJSON bool) (*hg.Event, error) {
		we := src.ToWire()
		if throughJSON {
			raw, err := json.Marshal(bnet.SyncResponse{FromID: 1, Events: []hg.WireEvent{we}})
			if err != nil {
				return nil, err
			}
			var resp bnet.SyncResponse
			if err := json.Unmarshal(raw, &resp); err != nil {
				return nil, err
			}
			if len(resp.Events) != 1 {
				return nil, fmt.Errorf("%d events after the transport", len(resp.Events))
			}
			we = resp.Events[0]
		}
		return B.ReadWireInfo(we)
	}
	for _, pd := range pends {
		if pd.out.err != "" {
			continue
		}
		switch pd.c.s("path") {
		case "wire":
			got, err := viaWire(pd.e, false)
			finish(pd, got, err)
		case "wire-json":
			got, err := viaWire(pd.e, true)
			finish(pd, got, err)
		}
	}
	bs.Close()
	bs2, err := hg.NewBadgerStore(1000, bdir, false, quietLogger())
	if err != nil {
		panic(err)
	}
	for _, pd := range pends {
		if pd.out.err != "" {
			continue
		}
		switch pd.c.s("path") {
		case "db":
			got, err := bs2.GetEvent(pd.out.h0)
			finish(pd, got, err)
		case "db-wire":
			got, err := bs2.GetEvent(pd.out.h0)
			if err == nil {
				got, err = viaWire(got, true)
			}
			finish(pd, got, err)
		}
	}
	bs2.Close()
	os.RemoveAll(bdir)
	for _, pd := range pends {
		emit(pd.c, pd.out)
	}
}

func blockPayload(b *hg.Block) string {
	var buf bytes.Buffer
	for _, t := range b.Transactions() {
		fmt.Fprintf(&buf, "t%d:%s;", len(t), hex.EncodeToString(t))
	}
	fmt.Fprintf(&buf, "|n=%d|", len(b.Transactions()))
	for _, t := range b.InternalTransactions() {
		h, _ := t.Body.Hash()
		fmt.Fprintf(&buf, "i:%s:%s;", hex.EncodeToString(h), t.Signature)
	}
	for _, r := range b.InternalTransactionReceipts() {
		h, _ := r.InternalTransaction.Body.Hash()
		fmt.Fprintf(&buf, "r:%s:%v;", hex.EncodeToString(h), r.Accepted)
	}
	vs := []string{}
	for v, s := range b.Signatures {
		vs = append(vs, v+"="+s)
	}
	sort.Strings(vs)
	fmt.Fprintf(&buf, "|%v|%d|%d|%d|%x|%x|%x", vs, b.Index(), b.RoundReceived(), b.Timestamp(), b.StateHash(), b.FrameHash(), b.PeersHash())
	return dig(buf.Bytes())
}

func allSigsValid(b *hg.Block) (ok bool) {
	defer func() {
		if r := recover(); r != nil {
			ok = false
		}
	}()
	for _, s := range b.GetSignatures() {
		v, err := b.Verify(s)
		if err != nil || !v {
			return false
		}
	}
	return true
}

func (w *World) runBlockCases(cases []codecCase, dir string, emit func(c codecCase, o codecOut)) {
	bdir := filepath.Join(dir, "codec_blk")
	os.RemoveAll(bdir)
	bs, err := hg.NewBadgerStore(1000, bdir, false, quietLogger())
	if err != nil {
		panic(err)
	}
	vals := w.parts[:3]
	ps := []*peers.Peer{}
	for i, p := range vals {
		if i == 1 {
			ps = append(ps, respelled(p.Peer))
		} else {
			ps = append(ps, p.Peer)
		}
	}
	outs := make([]codecOut, len(cases))
	blocks := make([]*hg.Block, len(cases))
	for k, c := range cases {
		fh := make([]byte, 32)
		w.rng.Read(fh)
		b := hg.NewBlock(k, k+1, fh, ps, w.txsOf(c.s("txs")), w.itxsOf(c.s("itxs"), vals[0]), int64(1600000000+k))
		sh := make([]byte, 32)
		w.rng.Read(sh)
		b.Body.StateHash = sh
		if c.s("rcpt") == "some" {
			rc := []hg.InternalTransactionReceipt{}
			for i := range b.Body.InternalTransactions {
				if i%2 == 0 {
					rc = append(rc, b.Body.InternalTransactions[i].AsAccepted())
				} else {
					rc = append(rc, b.Body.InternalTransactions[i].AsRefused())
				}
			}
			b.Body.InternalTransactionReceipts = rc
		}
		for i := 0; i < c.i("nsig"); i++ {
			s, err := b.Sign(vals[i].Key)
			if err != nil {
				panic(err)
			}
			b.SetSignature(s)
		}
		blocks[k] = b
		outs[k].h0, outs[k].s0, outs[k].p0 = b.Hex(), allSigsValid(b), blockPayload(b)
		switch c.s("path") {
		case "json":
			raw, err := json.Marshal(bnet.FastForwardResponse{FromID: 1, Block: *b, Frame: hg.Frame{}})
			if err != nil {
				outs[k].err = err.Error()
				continue
			}
			var resp bnet.FastForwardResponse
			if err := json.Unmarshal(raw, &resp); err != nil {
				outs[k].err = err.Error()
				continue
			}
			got := &resp.Block
			outs[k].h1, outs[k].s1, outs[k].p1 = got.Hex(), allSigsValid(got), blockPayload(got)
		case "db":
			if err := bs.SetBlock(b); err != nil {
				outs[k].err = "set: " + err.Error()
			}
		}
	}
	bs.Close()
	bs2, err := hg.NewBadgerStore(1000, bdir, false, quietLogger())
	if err != nil {
		panic(err)
	}
	for k, c := range cases {
		if c.s("path") == "db" && outs[k].err == "" {
			got, err := bs2.GetBlock(k)
			if err != nil {
				outs[k].err = err.Error()
				continue
			}
			outs[k].h1, outs[k].s1, outs[k].p1 = got.Hex(), allSigsValid(got), blockPayload(got)
		}
	}
	bs2.Close()
	os.RemoveAll(bdir)
	for k, c := range cases {
		emit(c, outs[k])
	}
}

func frameHash(f *hg.Frame) string {
	h, err := f.Hash()
	if err != nil {
		return "ERR:" + err.Error()
	}
	return hex.EncodeToString(h)[:24]
}

func framePayload(f *hg.Frame) string {
	var b bytes.Buffer
	for _, fe := range f.Events {
		fmt.Fprintf(&b, "e:%s:%d:%d:%v:%s;", fe.Core.Hex(), fe.Round, fe.LamportTimestamp, fe.Witness, payloadDigest(fe.Core))
	}
	rk := []string{}
	for k := range f.Roots {
		rk = append(rk, k)
	}
	sort.Strings(rk)
	for _, k := range rk {
		fmt.Fprintf(&b, "r:%s:", k)
		for _, fe := range f.Roots[k].Events {
			fmt.Fprintf(&b, "%s:%d:%d:%v,", fe.Core.Hex(), fe.Round, fe.LamportTimestamp, fe.Witness)
		}
	}
	for _, p := range f.Peers {
		fmt.Fprintf(&b, "p:%s;", p.PubKeyString())
	}
	pk := []int{}
	for k := range f.PeerSets {
		pk = append(pk, k)
	}
	sort.Ints(pk)
	for _, k := range pk {
		fmt.Fprintf(&b, "ps:%d:", k)
		for _, p := range f.PeerSets[k] {
			fmt.Fprintf(&b, "%s,", p.PubKeyString())
		}
	}
	fmt.Fprintf(&b, "|%d|%d", f.Round, f.Timestamp)
	return dig(b.Bytes())
}

func frameEventsValid(f *hg.Frame) bool {
	for _, fe := range f.SortedFrameEvents() {
		if !safeVerify(fe.Core) {
			return false
		}
	}
	return true
}

func (w *World) buildFrame(c codecCase, round int, reverse bool) *hg.Frame {
	np := c.i("npeers")
	parts := w.parts[:np]
	ps := []*peers.Peer{}
	for i, p := range parts {
		if i%2 == 1 {
			ps = append(ps, respelled(p.Peer)) // every second peer of the frame in the lower-case spelling
		} else {
			ps = append(ps, p.Peer)
		}
	}
	mkEvent := func(p *Part, idx int, sp string) *hg.FrameEvent {
		e := hg.NewEvent([][]byte{{byte(idx), byte(round)}}, nil, nil, []string{sp, ""}, p.Pub, idx)
		e.Body.Timestamp = int64(1600000000 + idx)
		e.Sign(p.Key)
		return &hg.FrameEvent{Core: e, Round: round - 1, LamportTimestamp: idx, Witness: idx == 0}
	}
	f := &hg.Frame{Round: round, Peers: ps, Roots: map[string]*hg.Root{}, Events: []*hg.FrameEvent{},
		PeerSets: map[int][]*peers.Peer{}, Timestamp: int64(1600000000 + round)}
	order := make([]*Part, len(parts))
	copy(order, parts)
	if reverse {
		for i, j := 0, len(order)-1; i < j; i, j = i+1, j-1 {
			order[i], order[j] = order[j], order[i]
		}
	}
	last := map[string]string{}
	roots := map[string]*hg.Root{}
	for _, p := range parts {
		r := hg.NewRoot()
		if c.s("roots") == "events" {
			fe0 := mkEvent(p, 0, "")
			fe1 := mkEvent(p, 1, fe0.Core.Hex())
			r.Events = append(r.Events, fe0, fe1)
			last[p.PubHex] = fe1.Core.Hex()
		}
		roots[p.Peer.PubKeyString()] = r
	}
	for _, p := range order {
		f.Roots[p.Peer.PubKeyString()] = roots[p.Peer.PubKeyString()]
	}
	for k := 0; k < c.i("nev"); k++ {
		p := parts[k%len(parts)]
		idx := 2 + k/len(parts)
		if c.s("roots") != "events" {
			idx = k / len(parts)
		}
		fe := mkEvent(p, idx, last[p.PubHex])
		fe.Round = round
		last[p.PubHex] = fe.Core.Hex()
		f.Events = append(f.Events, fe)
	}
	rounds := []int{0, 7, 13}[:c.i("npsets")]
	if reverse {
		for i, j := 0, len(rounds)-1; i < j; i, j = i+1, j-1 {
			rounds[i], rounds[j] = rounds[j], rounds[i]
		}
	}
	for _, r := range rounds {
		f.PeerSets[r] = ps
	}
	return f
}

func (w *World) runFrameCases(cases []codecCase, dir string, emit func(c codecCase, o codecOut)) {
	bdir := filepath.Join(dir, "codec_frm")
	os.RemoveAll(bdir)
	bs, err := hg.NewBadgerStore(1000, bdir, false, quietLogger())
	if err != nil {
		panic(err)
	}
	outs := make([]codecOut, len(cases))
	for k, c := range cases {
		// event timestamps and keys are fixed per case, so that the frame can be rebuilt
		f := w.buildFrame(c, k+1, false)
		outs[k].h0, outs[k].s0, outs[k].p0 = frameHash(f), frameEventsValid(f), framePayload(f)
		switch c.s("path") {
		case "json":
			raw, err := json.Marshal(bnet.FastForwardResponse{FromID: 1, Block: hg.Block{}, Frame: *f})
			if err != nil {
				outs[k].err = err.Error()
				continue
			}
			var resp bnet.FastForwardResponse
			if err := json.Unmarshal(raw, &resp); err != nil {
				outs[k].err = err.Error()
				continue
			}
			got := &resp.Frame
			outs[k].h1, outs[k].s1, outs[k].p1 = frameHash(got), frameEventsValid(got), framePayload(got)
		case "db":
			if err := bs.SetFrame(f); err != nil {
				outs[k].err = "set: " + err.Error()
			}
		case "refill":
			// the same content, maps filled in the opposite order, then through
			// the frame's own encoder
			g := w.buildFrameLike(f, c, k+1)
			raw, err := g.Marshal()
			if err != nil {
				outs[k].err = err.Error()
				continue
			}
			got := new(hg.Frame)
			if err := got.Unmarshal(raw); err != nil {
				outs[k].err = err.Error()
				continue
			}
			outs[k].h1, outs[k].s1, outs[k].p1 = frameHash(got), frameEventsValid(got), framePayload(got)
		}
	}
	bs.Close()
	bs2, err := hg.NewBadgerStore(1000, bdir, false, quietLogger())
	if err != nil {
		panic(err)
	}
	for k, c := range cases {
		if c.s("path") == "db" && outs[k].err == "" {
			got, err := bs2.VDbGetFrame(k + 1)
			if err != nil {
				outs[k].err = err.Error()
				continue
			}
			outs[k].h1, outs[k].s1, outs[k].p1 = frameHash(got), frameEventsValid(got), framePayload(got)
		}
	}
	bs2.Close()
	os.RemoveAll(bdir)
	for k, c := range cases {
		emit(c, outs[k])
	}
}

// buildFrameLike: the frame f again (same events), its maps filled in the
// opposite order
func (w *World) buildFrameLike(f *hg.Frame, c codecCase, round int) *hg.Frame {
	g := &hg.Frame{Round: f.Round, Peers: f.Peers, Roots: map[string]*hg.Root{}, Events: f.Events,
		PeerSets: map[int][]*peers.Peer{}, Timestamp: f.Timestamp}
	rk := []string{}
	for k := range f.Roots {
		rk = append(rk, k)
	}
	sort.Sort(sort.Reverse(sort.StringSlice(rk)))
	for _, k := range rk {
		g.Roots[k] = f.Roots[k]
	}
	pk := []int{}
	for k := range f.PeerSets {
		pk = append(pk, k)
	}
	sort.Sort(sort.Reverse(sort.IntSlice(pk)))
	for _, k := range pk {
		g.PeerSets[k] = f.PeerSets[k]
	}
	return g
}

func runCodec(o *Opts) *Summary {
	s := &Summary{Mode: "codec", Extra: map[string]interface{}{}}
	raw, err := os.ReadFile(o.Arg)
	if err != nil {
		fmt.Fprintln(os.Stderr, "codec: cannot read the case list:", err)
		os.Exit(2)
	}
	var lists map[string][]codecCase
	if err := json.Unmarshal(raw, &lists); err != nil {
		fmt.Fprintln(os.Stderr, "codec: bad case list:", err)
		os.Exit(2)
	}
	const batch = 60
	w := NewWorld(o.Seed, batch+1)
	w.OpenTrace(o.Out)
	w.traceNo = 1
	w.Emit(0, "Init", map[string]interface{}{"nc": 1, "genesis": []int{1}, "nodes": []interface{}{}, "mode": "codec", "seed": o.Seed}, nil)
	n, differing := 0, 0
	emit := func(c codecCase, out codecOut) {
		x := map[string]interface{}{}
		for k, v := range c {
			x[k] = v
		}
		n++
		if out.err != "" || out.h0 != out.h1 || out.p0 != out.p1 || (out.s0 && !out.s1) {
			differing++
		}
		w.Emit(1, "Codec", x, map[string]interface{}{"h0": out.h0, "h1": out.h1, "s0": out.s0, "s1": out.s1, "p0": out.p0, "p1": out.p1, "err": out.err})
	}
	evs := lists["events"]
	// keep the order of the list, deterministic shuffle by seed to vary the batches
	w.rng.Shuffle(len(evs), func(i, j int) { evs[i], evs[j] = evs[j], evs[i] })
	for i := 0; i < len(evs); i += batch {
		j := i + batch
		if j > len(evs) {
			j = len(evs)
		}
		w.runEventBatch(evs[i:j], o.Dir, emit)
	}
	w.runBlockCases(lists["blocks"], o.Dir, emit)
	w.runFrameCases(lists["frames"], o.Dir, emit)
	s.Traces = 1
	s.Lines = w.lines
	s.Steps = n
	s.Extra["cases_executed"] = n
	s.Extra["cases_differing"] = differing
	s.Extra["event_cases"] = len(lists["events"])
	s.Extra["block_cases"] = len(lists["blocks"])
	s.Extra["frame_cases"] = len(lists["frames"])
	w.CloseTrace()
	return s
}
