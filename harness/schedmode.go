package main

// "sched" mode (specification -> implementation): behaviours that TLC generated
// from Babble.tla (spec/MC_sched.tla, simulation) are stepped through real
// cores.  Send computes the real eventDiff against the receiver's real
// known-map and keeps the (wire) response in flight; Deliver feeds it to the
// real core.sync later - so responses are stale, duplicated or lost as the
// specification's msgs variable allows.  Every Deliver records the usual Sync
// line (re-executed and checked by Trace.tla) and carries what the
// specification predicted for the acting node after that step.

import (
	"bufio"
	"encoding/json"
	"fmt"
	"os"
	"time"

	hg "github.com/mosaicnetworks/babble/src/hashgraph"
)

func init() { modes["sched"] = runSched }

type schedStep struct {
	A    string                 `json:"a"`
	ID   int                    `json:"id"`
	N    int                    `json:"n"`
	From int                    `json:"from"`
	To   int                    `json:"to"`
	Lim  int                    `json:"lim"`
	Evs  [][2]int               `json:"evs"`
	New  [][2]int               `json:"new"`
	Pred map[string]interface{} `json:"pred"`
}

type schedule struct {
	Nodes   int         `json:"nodes"`
	Genesis []int       `json:"genesis"`
	Silent  []int       `json:"silent"`
	Steps   []schedStep `json:"steps"`
}

type flight struct {
	from *CNode
	to   *CNode
	diff []*hg.Event
	wire []hg.WireEvent
	same bool // the real diff is the one the specification computed
}

func evIDs(ps [][2]int) []string {
	r := []string{}
	for _, p := range ps {
		r = append(r, fmt.Sprintf("c%d.%d", p[0], p[1]))
	}
	return r
}

func runSched(o *Opts) *Summary {
	s := &Summary{Mode: "sched"}
	f, err := os.Open(o.Arg)
	if err != nil {
		fmt.Fprintln(os.Stderr, "sched: cannot open schedule file:", err)
		os.Exit(2)
	}
	defer f.Close()
	sc := bufio.NewScanner(f)
	sc.Buffer(make([]byte, 1<<20), 1<<28)
	var w *World
	t := 0
	stale, dropped, diffMis, delivered := 0, 0, 0, 0
	for sc.Scan() {
		var sd schedule
		if err := json.Unmarshal(sc.Bytes(), &sd); err != nil {
			fmt.Fprintln(os.Stderr, "sched: bad schedule:", err)
			os.Exit(2)
		}
		if o.Traces > 0 && t >= o.Traces {
			break
		}
		w2 := NewWorld(o.Seed*1000+int64(t), sd.Nodes)
		if w == nil {
			w2.OpenTrace(o.Out)
		} else {
			w2.out, w2.outF, w2.seq, w2.lines = w.out, w.outF, 0, w.lines
		}
		w = w2
		t++
		w.traceNo = t
		w.tsBase = time.Now().Unix()
		cn := NewCoreNet(w, CoreOpts{N: sd.Nodes, Store: o.Store, Cache: o.Cache, Dir: o.Dir})
		cn.EmitInit(map[string]interface{}{"sched": "tlc", "seed": o.Seed*1000 + int64(t), "mode": "sched"})
		inflight := map[int]*flight{}
		for k, st := range sd.Steps {
			full := o.Full > 0 && k%o.Full == 0
			switch st.A {
			case "Submit":
				id, payload := w.RandTx()
				cn.Submit(cn.byNum[st.N], id, payload)
			case "Send":
				a, b := cn.byNum[st.To], cn.byNum[st.From]
				known := a.core.KnownEvents()
				diff, err := b.core.EventDiff(known)
				if err != nil {
					w.Emit(a.num, "SyncFail", map[string]interface{}{"from": b.num, "why": "diff"}, nil)
					continue
				}
				if st.Lim > 0 && len(diff) > st.Lim {
					diff = diff[:st.Lim]
				}
				wire, err := b.core.ToWire(diff)
				if err != nil {
					w.Emit(a.num, "SyncFail", map[string]interface{}{"from": b.num, "why": "wire"}, nil)
					continue
				}
				want := evIDs(st.Evs)
				same := len(want) == len(diff)
				for i := 0; same && i < len(diff); i++ {
					inf, known := w.events[diff[i].Hex()]
					same = known && inf.ID == want[i]
				}
				if !same {
					diffMis++
				}
				inflight[st.ID] = &flight{from: b, to: a, diff: diff, wire: wire, same: same}
			case "Drop":
				if _, ok := inflight[st.ID]; ok {
					dropped++
				}
				delete(inflight, st.ID)
			case "Deliver":
				fl, ok := inflight[st.ID]
				if !ok {
					continue
				}
				delete(inflight, st.ID)
				// stale: the receiver learned something since the response was computed
				kn := fl.to.core.KnownEvents()
				for _, ev := range fl.diff {
					if p := w.PartByPub(ev.Creator()); p != nil && kn[p.ID] >= ev.Index() {
						stale++
						break
					}
				}
				pred := st.Pred
				if pred == nil {
					pred = map[string]interface{}{}
				}
				pred["new"] = evIDs(st.New)
				pred["sent"] = fl.same
				cn.pred = pred
				cn.deliver(fl.to, fl.from.num, fl.from.part.ID, fl.diff, fl.wire, full)
				cn.pred = nil
				delivered++
			case "Monologue":
				cn.pred = st.Pred
				if cn.pred != nil {
					cn.pred["new"] = []string{}
					cn.pred["sent"] = true
				}
				cn.MonologueStep(cn.byNum[st.N], full)
				cn.pred = nil
			}
		}
		s.Steps += cn.steps
		s.Events += len(w.events)
		s.Blocks += cn.blocks
		s.Errors += cn.errs
		if len(s.Samples) < 3 {
			s.Samples = append(s.Samples, map[string]interface{}{"trace": t, "n": sd.Nodes, "schedule_actions": len(sd.Steps),
				"events": len(w.events), "blocks_delivered": cn.blocks, "sync_steps": cn.steps})
		}
		cn.Close()
	}
	if w == nil {
		fmt.Fprintln(os.Stderr, "sched: no schedule in", o.Arg)
		os.Exit(2)
	}
	s.Traces = t
	s.Lines = w.lines
	s.Extra = map[string]interface{}{"schedules": t, "responses_delivered": delivered, "responses_stale_at_delivery": stale,
		"responses_dropped": dropped, "diff_differs_from_specification": diffMis}
	w.CloseTrace()
	return s
}
