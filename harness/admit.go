package main

// "admit" mode (C07): tampered events offered to an honest core through both
// entry paths (InsertEvent with a full event; core.sync with the wire form),
// interleaved with valid ones.  The driver computes the admission facts with
// its own crypto and its own record of the target's view.

import (
	"crypto/sha256"
	"encoding/hex"
	"fmt"
	"sort"
	"strings"
	"time"

	"github.com/mosaicnetworks/babble/src/crypto/keys"
	hg "github.com/mosaicnetworks/babble/src/hashgraph"
	"github.com/mosaicnetworks/babble/src/peers"
)

func init() { modes["admit"] = runAdmit }

// stateDigest: DAG, known-events map and consensus results of a core
func (n *CNode) stateDigest() string {
	h := sha256.New()
	st := n.store
	known := st.KnownEvents()
	for _, id := range sortedKeysU32(known) {
		fmt.Fprintf(h, "k%d=%d;", id, known[id])
		if p, ok := st.RepertoireByID()[id]; ok {
			evs, err := st.ParticipantEvents(p.PubKeyString(), -1)
			fmt.Fprintf(h, "pe%v:%v;", evs, err != nil)
			last, _ := st.LastEventFrom(p.PubKeyString())
			fmt.Fprintf(h, "last=%s;", last)
		}
	}
	fmt.Fprintf(h, "lr=%d;lb=%d;", st.LastRound(), st.LastBlockIndex())
	for r := 0; r <= st.LastRound(); r++ {
		if ri, err := st.GetRound(r); err == nil {
			ks := []string{}
			for e, re := range ri.CreatedEvents {
				ks = append(ks, fmt.Sprintf("%s:%v:%v", e, re.Witness, re.Famous))
			}
			sort.Strings(ks)
			fmt.Fprintf(h, "r%d:%v:%v:%v;", r, ks, ri.ReceivedEvents, ri.VDecided())
		}
	}
	for i := 0; i <= st.LastBlockIndex(); i++ {
		if b, err := st.GetBlock(i); err == nil {
			fmt.Fprintf(h, "b%d:%s:%d;", i, bodyDigest(b), len(b.Signatures))
		}
	}
	hgr := n.core.Hg()
	fmt.Fprintf(h, "u=%v;p=%d;", hgr.UndeterminedEvents, len(hgr.PendingRounds.GetOrderedPendingRounds()))
	fmt.Fprintf(h, "head=%s;seq=%d;", n.core.Head(), n.core.Seq())
	return hex.EncodeToString(h.Sum(nil))[:20]
}

type offerFacts struct {
	Sig, Creator, SP, OP, Index, Itx bool
}

func (f offerFacts) all() bool { return f.Sig && f.Creator && f.SP && f.OP && f.Index && f.Itx }

// lastOf: the driver's own record of the creator's last event in n's view
func (n *CNode) lastOf(c int) *EvInfo {
	var best *EvInfo
	for h := range n.view {
		inf := n.w.events[h]
		if inf != nil && inf.C == c && (best == nil || inf.I > best.I) {
			best = inf
		}
	}
	return best
}

func (n *CNode) factsOf(ev *hg.Event) offerFacts {
	w := n.w
	f := offerFacts{}
	f.Sig = safeVerifyEvent(ev)
	f.Itx = true
	for i := range ev.Body.InternalTransactions {
		t := ev.Body.InternalTransactions[i]
		if !safeVerifyItx(&t) {
			f.Itx = false
		}
	}
	cp := w.PartByPub(safeCreator(ev))
	if cp != nil {
		_, f.Creator = n.store.RepertoireByPubKey()[strings.ToUpper(cp.PubHex)]
	}
	if len(ev.Body.Parents) != 2 {
		return f
	}
	sp, op := ev.Body.Parents[0], ev.Body.Parents[1]
	var last *EvInfo
	if cp != nil {
		last = n.lastOf(cp.Num)
	}
	if last == nil {
		f.SP = sp == ""
		f.Index = ev.Body.Index == 0
	} else {
		f.SP = sp == last.Hash
		f.Index = ev.Body.Index == last.I+1
	}
	f.OP = op == "" || n.view[op]
	return f
}

func safeCreator(ev *hg.Event) (s string) {
	defer func() {
		if r := recover(); r != nil {
			s = ""
		}
	}()
	return ev.Creator()
}

// offerFull: InsertEventAndRunConsensus with a full event
func (cn *CoreNet) offerFull(t *CNode, ev *hg.Event, desc string) (accepted bool) {
	facts := t.factsOf(ev)
	before := t.stateDigest()
	lcr := t.beforeSync()
	var err error
	panicked := ""
	func() {
		defer func() {
			if r := recover(); r != nil {
				panicked = fmt.Sprint(r)
			}
		}()
		err = t.core.InsertEventAndRunConsensus(ev, true)
	}()
	h := ""
	func() {
		defer func() { recover() }()
		h = ev.Hex()
	}()
	_, gerr := peekEvent(t.store, h)
	accepted = gerr == nil && !t.view[h] && h != ""
	cn.logOffer(t, ev, desc, "full", facts, accepted, err, panicked, before, lcr)
	return accepted
}

func (cn *CoreNet) logOffer(t *CNode, ev *hg.Event, desc, path string, facts offerFacts, accepted bool, err error, panicked, before string, sb *syncBefore) {
	w := cn.w
	// the specification does not follow a node that is fed tampered input (it
	// would have to model what each tampering leaves behind); the property
	// checks of the Offer lines are on observed facts
	if !t.lost {
		t.lost, t.lostWhy = true, "tampered-input"
	}
	if accepted {
		inf, isNew := w.Register(ev)
		if isNew {
			w.EmitCreate(inf)
		}
		t.markInserted(inf)
		o := t.Observe([]string{inf.Hash}, sb.roundsFrom, true)
		o["err"] = err != nil
		o["serr"] = false
		w.Emit(t.num, "Sync", map[string]interface{}{"from": 0, "evs": []string{inf.ID}, "ins": []string{inf.ID}, "new": []string{},
			"offer": desc, "path": path, "lost": "tampered-input"}, o)
	}
	after := t.stateDigest()
	errmsg := ""
	if err != nil {
		errmsg = err.Error()
		if len(errmsg) > 80 {
			errmsg = errmsg[:80]
		}
	}
	w.Emit(t.num, "Offer", map[string]interface{}{"desc": desc, "path": path,
		"sig": facts.Sig, "creator": facts.Creator, "sp": facts.SP, "op": facts.OP, "index": facts.Index, "itx": facts.Itx,
		"admissible": facts.all()},
		map[string]interface{}{"accepted": accepted, "panicked": panicked != "", "panic": panicked, "err": errmsg, "changed": before != after,
			"known": t.knownObs(), "chains": t.chainsObs()})
	cn.steps++
}

// chainsObs: per creator, the indexes of the events the store lists
func (n *CNode) chainsObs() []interface{} {
	res := []interface{}{}
	known := n.store.KnownEvents()
	for _, id := range sortedKeysU32(known) {
		p, ok := n.store.RepertoireByID()[id]
		if !ok {
			continue
		}
		c := 0
		if q := n.w.PartByPub(p.PubKeyHex); q != nil {
			c = q.Num
		}
		// (a rolling window smaller than the chain lists its tail only)
		from := 0
		evs, err := n.store.ParticipantEvents(p.PubKeyString(), -1)
		for err != nil && from <= known[id] {
			from++
			evs, err = n.store.ParticipantEvents(p.PubKeyString(), from-1)
		}
		idx := []int{}
		okc := true
		for k, h := range evs {
			ev, err := peekEvent(n.store, h)
			if err != nil {
				if n.cache >= 1000 {
					okc = false
				} else {
					idx = append(idx, from+k) // left the event cache: listed, not readable
				}
				continue
			}
			idx = append(idx, ev.Index())
			if ev.Creator() != p.PubKeyString() {
				okc = false
			}
			if k > 0 && ev.SelfParent() != evs[k-1] {
				okc = false
			}
		}
		res = append(res, map[string]interface{}{"c": c, "idx": idx, "linked": okc, "last": known[id], "from": from})
	}
	return res
}

// ---------------------------------------------------------------- tamperings

func cloneEvent(ev *hg.Event) *hg.Event {
	// (nil slices must stay nil: they are marshalled as null, empty ones as [],
	// and the signature covers the JSON form)
	b := ev.Body
	if ev.Body.Parents != nil {
		b.Parents = append([]string{}, ev.Body.Parents...)
	}
	if ev.Body.Transactions != nil {
		b.Transactions = append([][]byte{}, ev.Body.Transactions...)
	}
	if ev.Body.InternalTransactions != nil {
		b.InternalTransactions = append([]hg.InternalTransaction{}, ev.Body.InternalTransactions...)
	}
	if ev.Body.BlockSignatures != nil {
		b.BlockSignatures = append([]hg.BlockSignature{}, ev.Body.BlockSignatures...)
	}
	if ev.Body.Creator != nil {
		b.Creator = append([]byte{}, ev.Body.Creator...)
	}
	return &hg.Event{Body: b, Signature: ev.Signature}
}

type tamper struct {
	name   string
	resign bool
	f      func(e *hg.Event, ctx *tctx)
}

type tctx struct {
	w       *World
	t       *CNode
	p       *PNode
	other   *Part // another validator's key
	foreign *Part // a key outside the validator set
	oldOwn  string
	anyEv   string
}

var malformedSigs = []string{"", "x", "|", "1|", "|1", "!!|??", "a|b|c", "zz|zz", "-1|-1", "0|0"}

func tamperings() []tamper {
	ts := []tamper{
		{"sig-flipped", false, func(e *hg.Event, c *tctx) {
			r, s, _ := keys.DecodeSignature(e.Signature)
			r.Add(r, r.SetInt64(1).Add(r, r))
			e.Signature = keys.EncodeSignature(r, s)
		}},
		{"sig-by-other-validator", false, func(e *hg.Event, c *tctx) { e.Sign(c.other.Key) }},
		{"payload-changed-not-resigned", false, func(e *hg.Event, c *tctx) {
			e.Body.Transactions = append(e.Body.Transactions, []byte("injected"))
		}},
		{"timestamp-changed-not-resigned", false, func(e *hg.Event, c *tctx) { e.Body.Timestamp += 17 }},
		{"index-skipped", true, func(e *hg.Event, c *tctx) { e.Body.Index += 1 }},
		{"index-skipped-far", true, func(e *hg.Event, c *tctx) { e.Body.Index += 1000 }},
		{"index-duplicate", true, func(e *hg.Event, c *tctx) { e.Body.Index -= 1 }},
		{"index-zero", true, func(e *hg.Event, c *tctx) { e.Body.Index = 0 }},
		{"index-negative", true, func(e *hg.Event, c *tctx) { e.Body.Index = -1 }},
		{"index-min", true, func(e *hg.Event, c *tctx) { e.Body.Index = -1 << 62 }},
		{"selfparent-older-own-event", true, func(e *hg.Event, c *tctx) {
			if c.oldOwn != "" {
				e.Body.Parents[0] = c.oldOwn
			} else {
				e.Body.Parents[0] = "0XDEAD"
			}
		}},
		{"selfparent-older-with-its-index", true, func(e *hg.Event, c *tctx) {
			// a real equivocation: second event on top of an older own event, with the matching index
			if c.oldOwn != "" {
				e.Body.Parents[0] = c.oldOwn
				e.Body.Index = c.w.events[c.oldOwn].I + 1
			} else {
				e.Body.Parents[0] = "0XDEAD"
			}
		}},
		{"selfparent-empty", true, func(e *hg.Event, c *tctx) { e.Body.Parents[0] = "" }},
		{"selfparent-empty-index0", true, func(e *hg.Event, c *tctx) { e.Body.Parents[0] = ""; e.Body.Index = 0 }},
		{"selfparent-unknown", true, func(e *hg.Event, c *tctx) { e.Body.Parents[0] = "0X" + strings.Repeat("AB", 32) }},
		{"selfparent-foreign-event", true, func(e *hg.Event, c *tctx) { e.Body.Parents[0] = c.anyEv }},
		{"otherparent-unknown", true, func(e *hg.Event, c *tctx) { e.Body.Parents[1] = "0X" + strings.Repeat("CD", 32) }},
		{"otherparent-garbage", true, func(e *hg.Event, c *tctx) { e.Body.Parents[1] = "zz" }},
		{"creator-foreign", false, func(e *hg.Event, c *tctx) {
			e.Body.Creator = c.foreign.Pub
			e.Body.Parents[0] = ""
			e.Body.Index = 0
			e.Sign(c.foreign.Key)
		}},
		{"creator-other-validator-own-sig", false, func(e *hg.Event, c *tctx) { e.Body.Creator = c.other.Pub }},
		{"itx-bad-signature", true, func(e *hg.Event, c *tctx) {
			t := hg.NewInternalTransaction(hg.PEER_ADD, *peers.NewPeer(c.foreign.PubHex, "x", "x"))
			t.Sign(c.other.Key) // not the peer it concerns
			e.Body.InternalTransactions = append(e.Body.InternalTransactions, t)
		}},
		{"itx-remove-signed-by-creator-not-peer", true, func(e *hg.Event, c *tctx) {
			t := hg.NewInternalTransaction(hg.PEER_REMOVE, *peers.NewPeer(c.other.PubHex, "x", "x"))
			t.Sign(c.p.part.Key)
			e.Body.InternalTransactions = append(e.Body.InternalTransactions, t)
		}},
		{"equivocation-resigned-other-payload", true, func(e *hg.Event, c *tctx) {
			// same height as the creator's last event held by the target
			if c.oldOwn != "" {
				last := c.t.lastOf(c.p.num)
				e.Body.Parents[0] = last.SP2(c.w)
				e.Body.Index = last.I
				e.Body.Transactions = [][]byte{[]byte("equivocation")}
			}
		}},
	}
	for i, ms := range malformedSigs {
		m := ms
		ts = append(ts, tamper{fmt.Sprintf("sig-malformed-%d", i), false, func(e *hg.Event, c *tctx) { e.Signature = m }})
	}
	// membership requests whose signature does not even decode, inside an event
	// that its (Byzantine) creator signed properly
	for i, ms := range malformedSigs {
		m := ms
		ts = append(ts, tamper{fmt.Sprintf("itx-remove-sig-malformed-%d", i), true, func(e *hg.Event, c *tctx) {
			t := hg.NewInternalTransaction(hg.PEER_REMOVE, *peers.NewPeer(c.other.PubHex, "x", "x"))
			t.Signature = m
			e.Body.InternalTransactions = append(e.Body.InternalTransactions, t)
		}})
		if i%3 == 0 {
			ts = append(ts, tamper{fmt.Sprintf("itx-add-sig-malformed-%d", i), true, func(e *hg.Event, c *tctx) {
				t := hg.NewInternalTransaction(hg.PEER_ADD, *peers.NewPeer(c.foreign.PubHex, "x", "x"))
				t.Signature = m
				e.Body.InternalTransactions = append(e.Body.InternalTransactions, t)
			}})
		}
	}
	return ts
}

// SP2: hash of the self-parent of an event ("" if none)
func (inf *EvInfo) SP2(w *World) string {
	if inf.SP == "" {
		return ""
	}
	if p, ok := w.byID[inf.SP]; ok {
		return p.Hash
	}
	return ""
}

func runAdmit(o *Opts) *Summary {
	s := &Summary{Mode: "admit", Extra: map[string]interface{}{}}
	var w *World
	offers, acceptedValid, rejected := 0, 0, 0
	for t := 0; t < o.Traces; t++ {
		n := o.N
		if n == 0 {
			n = 3 + t%3
		}
		w2 := NewWorld(o.Seed*1000+int64(t), n+1) // the last key is outside the validator set
		if w == nil {
			w2.OpenTrace(o.Out)
		} else {
			w2.out, w2.outF, w2.lines = w.out, w.outF, w.lines
		}
		w = w2
		w.traceNo = t + 1
		w.tsBase = time.Now().Unix()
		gen := []int{}
		for i := 1; i <= n; i++ {
			gen = append(gen, i)
		}
		// validator n is a puppet (Byzantine key inside the set), the others are real cores
		cn := &CoreNet{w: w, byNum: map[int]*CNode{}}
		// "quiet" variant: the target's caches are small and the puppet stays silent for
		// long stretches, so that its last event has left the target's event cache
		// when the next offers arrive
		quiet := o.Sched == "quiet"
		period := 3
		sinceOffer := 0 // quiet variant: events the target inserted since the puppet's last offers
		for i, k := range gen[:n-1] {
			cache := 100000
			if quiet && i == 0 {
				cache = o.Cache
			}
			nd := w.NewCNode(w.parts[k-1], gen, gen, "inmem", cache, "")
			if quiet && i == 0 {
				// (the specification does not model a cache smaller than the history)
				nd.lost, nd.lostWhy = true, "small-cache"
			}
			cn.nodes = append(cn.nodes, nd)
			cn.byNum[k] = nd
		}
		p := w.NewPNode(w.parts[n-1], gen)
		p.tsGen = func() int64 { return time.Now().Unix() }
		m := &mixedNet{cn: cn, puppets: map[int]*PNode{n: p}}
		cn.EmitInit(map[string]interface{}{"sched": "admit", "seed": o.Seed*1000 + int64(t), "puppet": n, "nc": n + 1, "quiet": quiet})
		validDesc := "valid"
		if quiet {
			// (an in-memory store whose cache is smaller than the history refuses valid
			// events too: unsupported configuration, only admission of bad ones counts)
			validDesc = "valid-small-cache"
		}
		tam := tamperings()
		target := cn.nodes[0]
		for k := 0; k < o.Steps; k++ {
			// honest background gossip (the puppet takes part honestly too)
			a := gen[w.rng.Intn(n)]
			b := gen[w.rng.Intn(n)]
			if quiet {
				// the puppet is silent between its offers: honest nodes only
				if n < 3 {
					break
				}
				a = gen[w.rng.Intn(n-1)]
				b = gen[w.rng.Intn(n-1)]
			}
			before := len(target.view)
			if a != b {
				if w.rng.Float64() < o.TxP {
					if hn, ok := cn.byNum[a]; ok {
						id, payload := w.RandTx()
						cn.Submit(hn, id, payload)
					}
				}
				m.exchange(a, b, 0, true)
			}
			sinceOffer += len(target.view) - before
			if quiet {
				// offers only once enough newer events went through the target's cache
				if sinceOffer < 2*o.Cache+6 {
					continue
				}
				sinceOffer = 0
			} else if k < 10 || k%period != 0 {
				continue
			}
			// the puppet catches up with the target, then builds its next valid event
			// on top of what the target holds, and offers tampered versions first
			p.Receive(toWire(storeDiff(target.store, p.store.KnownEvents())))
			last := target.lastOf(p.num)
			sp, idx := "", 0
			if last != nil {
				sp, idx = last.Hash, last.I+1
				if p.head != sp {
					continue // the target has not yet received the puppet's latest event
				}
			}
			op := ""
			if l1 := target.lastOf(target.num); l1 != nil {
				op = l1.Hash
			}
			if quiet {
				// (a target with a tiny cache stops creating events: any validator's last
				// event that it can still read)
				for _, c := range gen[:n-1] {
					if l1 := target.lastOf(c); l1 != nil {
						if _, err := target.store.GetEvent(l1.Hash); err == nil {
							op = l1.Hash
						}
					}
				}
			}
			valid := hg.NewEvent([][]byte{[]byte(fmt.Sprintf("ptx-%d-%d", t, k))}, nil, nil, []string{sp, op}, p.part.Pub, idx)
			valid.Sign(p.part.Key)
			ctx := &tctx{w: w, t: target, p: p, other: w.parts[1], foreign: w.parts[n]}
			if last != nil && last.SP != "" {
				ctx.oldOwn = last.SP2(w)
			}
			if l1 := target.lastOf(target.num); l1 != nil {
				ctx.anyEv = l1.Hash
			}
			// every fourth round: a multi-step sequence.  A valid event whose
			// other-parent the target does not hold yet is offered (refused), the
			// missing parent is delivered by an ordinary sync, then the same body is
			// offered with another validator's signature (must be refused), twice,
			// and finally the valid event (must be accepted).
			if k%12 == 0 && !quiet {
				var src *CNode
				var missing *EvInfo
				for _, other := range cn.nodes[1:] {
					if l := other.lastOf(other.num); l != nil && !target.view[l.Hash] {
						src, missing = other, l
						break
					}
				}
				if src != nil {
					early := hg.NewEvent([][]byte{[]byte(fmt.Sprintf("early-%d-%d", t, k))}, nil, nil, []string{sp, missing.Hash}, p.part.Pub, idx)
					early.Sign(p.part.Key)
					cn.offerFull(target, cloneEvent(early), "valid-but-other-parent-not-yet-known")
					cn.SyncStep(target, src, 0, true)
					if target.view[missing.Hash] {
						forged := cloneEvent(early)
						forged.Sign(ctx.other.Key)
						if l2 := target.lastOf(p.num); (l2 == nil && sp == "") || (l2 != nil && l2.Hash == sp) {
							cn.offerFull(target, cloneEvent(forged), "same-body-forged-signature-after-retry")
							cn.offerWire(target, p, cloneEvent(forged), "same-body-forged-signature-after-retry")
							if cn.offerFull(target, cloneEvent(early), "valid") {
								acceptedValid++
								p.Receive(toWire(storeDiff(target.store, p.store.KnownEvents())))
								p.h.InsertEventAndRunConsensus(freshEvent(early), true)
								p.head, p.seq = early.Hex(), early.Index()
							}
							offers += 4
							continue
						}
					}
				}
			}
			for q := 0; q < 6; q++ {
				tm := tam[w.rng.Intn(len(tam))]
				if o.Arg == "all" {
					tm = tam[(k/3*6+q)%len(tam)]
				}
				if quiet && q < 3 {
					tm = tam[[]int{6, 7, 4}[q]] // index-duplicate, index-zero, index-skipped on top of the evicted event
				}
				e := cloneEvent(valid)
				func() {
					defer func() { recover() }()
					tm.f(e, ctx)
					if tm.resign {
						e.Sign(p.part.Key)
					}
				}()
				path := "full"
				if q%2 == 1 {
					path = "wire"
				}
				var acc bool
				if path == "full" {
					acc = cn.offerFull(target, e, tm.name)
				} else {
					acc = cn.offerWire(target, p, e, tm.name)
				}
				offers++
				if !acc && q%3 == 0 {
					// present the same refused event a second time
					if path == "full" {
						acc = cn.offerFull(target, cloneEvent(e), tm.name+"/again")
					} else {
						acc = cn.offerWire(target, p, cloneEvent(e), tm.name+"/again")
					}
					offers++
				}
				if acc {
					// the puppet must adopt what the target accepted to keep building on it
					inf := w.events[e.Hex()]
					if inf != nil && inf.C == p.num {
						p.h.InsertEventAndRunConsensus(freshEvent(e), true)
						p.head, p.seq = e.Hex(), e.Index()
					}
					break
				} else {
					rejected++
				}
			}
			// then the valid one (vacuity guard: it must be accepted) if the chain is still where it was
			if l2 := target.lastOf(p.num); (l2 == nil && sp == "") || (l2 != nil && l2.Hash == sp) {
				var acc bool
				if k%2 == 0 {
					acc = cn.offerFull(target, cloneEvent(valid), validDesc)
				} else {
					acc = cn.offerWire(target, p, cloneEvent(valid), validDesc)
				}
				offers++
				if acc {
					acceptedValid++
					p.h.InsertEventAndRunConsensus(freshEvent(valid), true)
					p.head, p.seq = valid.Hex(), valid.Index()
					w.Register(valid)
				}
			}
		}
		s.Steps += cn.steps
		s.Events += len(w.events)
		s.Blocks += cn.blocks
		if len(s.Samples) < 2 {
			s.Samples = append(s.Samples, map[string]interface{}{"trace": t + 1, "n": n, "offers_so_far": offers})
		}
		cn.Close()
	}
	s.Extra["offers"] = offers
	s.Extra["valid_accepted"] = acceptedValid
	s.Extra["rejected"] = rejected
	s.Extra["tamperings"] = len(tamperings())
	s.Traces = o.Traces
	s.Lines = w.lines
	w.CloseTrace()
	return s
}

// offerWire: core.sync with the wire form of the event (parents by creator id and index)
func (cn *CoreNet) offerWire(t *CNode, p *PNode, ev *hg.Event, desc string) (accepted bool) {
	facts := t.factsOf(ev)
	// wire fields as the sender would fill them from its own view
	we := hg.WireEvent{Signature: ev.Signature}
	func() {
		defer func() { recover() }()
		cp := cn.w.PartByPub(ev.Creator())
		cid := uint32(4242)
		if cp != nil {
			cid = cp.ID
		}
		spi, opi, opc := -1, -1, uint32(0)
		if sp, ok := cn.w.events[ev.Body.Parents[0]]; ok {
			spi = sp.I
		} else if ev.Body.Parents[0] != "" {
			spi = 999999
		}
		if op, ok := cn.w.events[ev.Body.Parents[1]]; ok {
			opi = op.I
			opc = cn.w.parts[op.C-1].ID
		} else if ev.Body.Parents[1] != "" {
			opi, opc = 999999, 4243
		}
		var wbs []hg.WireBlockSignature // nil stays nil (the hash covers null vs [])
		if ev.Body.BlockSignatures != nil {
			wbs = []hg.WireBlockSignature{}
			for _, bs := range ev.Body.BlockSignatures {
				wbs = append(wbs, bs.ToWire())
			}
		}
		we.Body = hg.WireBody{Transactions: ev.Body.Transactions, InternalTransactions: ev.Body.InternalTransactions,
			BlockSignatures: wbs, CreatorID: cid, OtherParentCreatorID: opc, Index: ev.Body.Index,
			SelfParentIndex: spi, OtherParentIndex: opi, Timestamp: ev.Body.Timestamp}
	}()
	// on the wire the parents are (creator id, index): what the target resolves them to decides
	before := t.stateDigest()
	sb := t.beforeSync()
	var err error
	var rec0 *hg.Event
	panicked := ""
	func() {
		defer func() {
			if r := recover(); r != nil {
				panicked = fmt.Sprint(r)
			}
		}()
		// what core.sync does for each wire event (without the heads bookkeeping
		// and the self-event that a sync may create afterwards)
		rec, rerr := t.core.Hg().ReadWireInfo(we)
		if rerr != nil {
			err = rerr
			return
		}
		rec0 = rec
		err = t.core.InsertEventAndRunConsensus(rec, false)
	}()
	// which event (if any) entered the store: the one the target reconstructed
	accepted = false
	var got *hg.Event
	// (the event as resolved before the attempt: an insertion that overwrites a
	// per-creator index entry makes a second resolution name another event)
	func() {
		defer func() { recover() }()
		if rec0 != nil {
			if _, gerr := peekEvent(t.store, rec0.Hex()); gerr == nil && !t.view[rec0.Hex()] {
				accepted = true
				got = rec0
			}
		}
	}()
	if accepted {
		if stored, e2 := peekEvent(t.store, got.Hex()); e2 == nil {
			got = stored
		}
		facts = t.factsOf(got) // facts of the event as the target reconstructed it
		// self events the target created in recordHeads are collected by the next Sync line
	}
	if got == nil {
		got = ev
	}
	cn.logOffer(t, got, desc, "wire", facts, accepted, err, panicked, before, sb)
	// self-events created by the target inside core.sync
	for _, inf := range t.collectNew() {
		cn.w.EmitCreate(inf)
		t.markInserted(inf)
		o := t.Observe([]string{inf.Hash}, sb.roundsFrom, true)
		o["err"], o["serr"] = false, false
		cn.w.Emit(t.num, "Sync", map[string]interface{}{"from": 0, "evs": []string{}, "ins": []string{}, "new": []string{inf.ID}, "lost": "tampered-input"}, o)
	}
	return accepted
}

func indexMatches(w *World, ev *hg.Event) bool {
	if ev.SelfParent() == "" {
		return ev.Index() == 0
	}
	if sp, ok := w.events[ev.SelfParent()]; ok {
		return ev.Index() == sp.I+1
	}
	return false
}
