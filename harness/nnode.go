package main

// "node" mode: real node.Node objects wired to a synchronous in-process
// net.Transport (VTransport) and the deterministic VApp.  The driver calls the
// node's own pull / push / join / fastForward methods; RPC handlers run the
// real processRPC code synchronously on the caller's goroutine.  Only the two
// calls that the code itself makes blocking (processJoinRequest and core.leave
// wait on a promise) run in a parked goroutine.

import (
	"encoding/json"
	"fmt"
	"os"
	"path/filepath"
	"time"

	"github.com/mosaicnetworks/babble/src/config"
	hg "github.com/mosaicnetworks/babble/src/hashgraph"
	bnet "github.com/mosaicnetworks/babble/src/net"
	"github.com/mosaicnetworks/babble/src/node"
	"github.com/mosaicnetworks/babble/src/peers"
)

type VNet struct {
	hostile bool // the message being accounted for was crafted by the driver (rpc mode)
	w      *World
	byAddr map[string]*NNode
	byNum  map[int]*NNode
	nodes  []*NNode
	// interception
	ffTamper     func(server *NNode, resp *bnet.FastForwardResponse) // applied to fast-forward responses
	joinTamper   func(resp *bnet.JoinResponse)
	joinForge    func(req *bnet.JoinRequest) *bnet.JoinResponse
	syncTamper   func(resp *bnet.SyncResponse)
	down         map[int]bool // unreachable nodes
	steps        int
	unresolvable int
	errs         int
	blocks       int
	lastPull     struct {
		wire []hg.WireEvent
		from int
	}
}

type VTransport struct {
	vn   *VNet
	addr string
	self int
	ch   chan bnet.RPC
}

func (t *VTransport) Listen()                   {}
func (t *VTransport) Consumer() <-chan bnet.RPC { return t.ch }
func (t *VTransport) LocalAddr() string         { return t.addr }
func (t *VTransport) AdvertiseAddr() string     { return t.addr }
func (t *VTransport) Close() error              { return nil }

func (t *VTransport) call(target string, cmd interface{}) (interface{}, error) {
	dst, ok := t.vn.byAddr[target]
	if !ok || t.vn.down[dst.num] {
		return nil, fmt.Errorf("vtransport: %s unreachable", target)
	}
	ch := make(chan bnet.RPCResponse, 1)
	// requests and responses cross the "wire" as JSON, like NetworkTransport
	// does, so that the two nodes never share objects
	dst.node.VProcessRPC(bnet.RPC{Command: wireCopy(cmd), RespChan: ch})
	r := <-ch
	return wireCopy(r.Response), r.Error
}

// wireCopy: JSON round trip of a command or response (a fresh object graph)
func wireCopy(v interface{}) interface{} {
	if v == nil {
		return nil
	}
	b, err := json.Marshal(v)
	if err != nil {
		return v
	}
	var out interface{}
	switch v.(type) {
	case *bnet.SyncRequest:
		out = new(bnet.SyncRequest)
	case *bnet.SyncResponse:
		out = new(bnet.SyncResponse)
	case *bnet.EagerSyncRequest:
		out = new(bnet.EagerSyncRequest)
	case *bnet.EagerSyncResponse:
		out = new(bnet.EagerSyncResponse)
	case *bnet.FastForwardRequest:
		out = new(bnet.FastForwardRequest)
	case *bnet.FastForwardResponse:
		out = new(bnet.FastForwardResponse)
	case *bnet.JoinRequest:
		out = new(bnet.JoinRequest)
	case *bnet.JoinResponse:
		out = new(bnet.JoinResponse)
	default:
		return v
	}
	if err := json.Unmarshal(b, out); err != nil {
		return v
	}
	return out
}

func (t *VTransport) Sync(target string, args *bnet.SyncRequest, resp *bnet.SyncResponse) error {
	r, err := t.call(target, args)
	if r != nil {
		if sr, ok := r.(*bnet.SyncResponse); ok && sr != nil {
			*resp = *sr
		}
	}
	if t.vn.syncTamper != nil {
		t.vn.syncTamper(resp)
	}
	t.vn.lastPull.wire = resp.Events
	if dst, ok := t.vn.byAddr[target]; ok {
		t.vn.lastPull.from = dst.num
	}
	return err
}

func (t *VTransport) EagerSync(target string, args *bnet.EagerSyncRequest, resp *bnet.EagerSyncResponse) error {
	dst, ok := t.vn.byAddr[target]
	var before *syncBefore
	if ok && !t.vn.down[dst.num] {
		before = dst.beforeSync()
	}
	r, err := t.call(target, args)
	if r != nil {
		if sr, ok := r.(*bnet.EagerSyncResponse); ok && sr != nil {
			*resp = *sr
		}
	}
	if before != nil {
		t.vn.afterSync(dst, t.self, args.Events, err, before, true)
	}
	return err
}

func (t *VTransport) FastForward(target string, args *bnet.FastForwardRequest, resp *bnet.FastForwardResponse) error {
	if _, ok := t.vn.byAddr[target]; !ok && t.vn.ffTamper != nil {
		// an address that belongs to no node of the run (a peer the node was talked
		// into): the adversary answers there - with the response of the lowest-numbered
		// live node as raw material for the tampering
		best := ""
		for addr, nd := range t.vn.byAddr {
			if nd.num != t.self && !t.vn.down[nd.num] && (best == "" || nd.num < t.vn.byAddr[best].num) {
				best = addr
			}
		}
		if best != "" {
			target = best
		}
	}
	r, err := t.call(target, args)
	if r != nil {
		if fr, ok := r.(*bnet.FastForwardResponse); ok && fr != nil {
			*resp = *fr
		}
	}
	if err == nil && t.vn.ffTamper != nil {
		t.vn.ffTamper(t.vn.byAddr[target], resp)
	}
	return err
}

func (t *VTransport) Join(target string, args *bnet.JoinRequest, resp *bnet.JoinResponse) error {
	if t.vn.joinForge != nil {
		// whoever answers at the configured address makes the response up
		*resp = *t.vn.joinForge(args)
		return nil
	}
	r, err := t.call(target, args)
	if r != nil {
		if jr, ok := r.(*bnet.JoinResponse); ok && jr != nil {
			*resp = *jr
		}
	}
	if err == nil && t.vn.joinTamper != nil {
		t.vn.joinTamper(resp)
	}
	return err
}

// NNode is a CNode (projection, view bookkeeping) around a real node.Node.
type NNode struct {
	*CNode
	node  *node.Node
	trans *VTransport
	conf  *config.Config
	vn    *VNet
}

type NodeOpts struct {
	Store        string
	Cache        int
	Dir          string
	SyncLimit    int
	FastSync     bool
	Bootstrap    bool
	Maintenance  bool
	SuspendLimit int
}

func NewVNet(w *World) *VNet {
	return &VNet{w: w, byAddr: map[string]*NNode{}, byNum: map[int]*NNode{}, down: map[int]bool{}}
}

func (vn *VNet) NewNode(p *Part, genesis []int, peerNums []int, o NodeOpts) *NNode {
	w := vn.w
	conf := config.NewDefaultConfig()
	conf.LogLevel = "panic"
	conf.HeartbeatTimeout = time.Hour
	conf.SlowHeartbeatTimeout = time.Hour
	conf.JoinTimeout = 600 * time.Second
	conf.TCPTimeout = time.Second
	conf.CacheSize = o.Cache
	conf.SyncLimit = o.SyncLimit
	if conf.SyncLimit == 0 {
		conf.SyncLimit = 1000
	}
	conf.EnableFastSync = o.FastSync
	conf.Bootstrap = o.Bootstrap
	conf.MaintenanceMode = o.Maintenance
	conf.SuspendLimit = o.SuspendLimit
	if conf.SuspendLimit == 0 {
		conf.SuspendLimit = 1000000
	}
	conf.Moniker = p.Peer.Moniker
	cn := &CNode{w: w, num: p.Num, part: p, kind: o.Store, cache: o.Cache, genesis: genesis,
		view: map[string]bool{}, undet: map[string]bool{}}
	if o.Store == "badger" {
		cn.dir = filepath.Join(o.Dir, fmt.Sprintf("ndb_t%d_n%d", w.traceNo, p.Num))
		if !o.Bootstrap {
			os.RemoveAll(cn.dir)
		}
	}
	var st hg.Store
	var err error
	if o.Store == "badger" {
		st, err = hg.NewBadgerStore(o.Cache, cn.dir, o.Maintenance, quietLogger())
	} else {
		st, err = w.NewStore(o.Store, o.Cache, cn.dir)
	}
	if err != nil {
		panic(err)
	}
	cn.store = st
	if w.faults {
		cn.fs = NewFaultStore(st)
		st = cn.fs
		cn.store = st
	}
	cn.app = NewVApp(w, p.Num)
	tr := &VTransport{vn: vn, addr: p.Peer.NetAddr, self: p.Num, ch: make(chan bnet.RPC, 16)}
	nd := node.NewNode(conf, node.NewValidator(p.Key, p.Peer.Moniker), w.PeerSet(peerNums), w.PeerSet(genesis), st, tr, cn.app)
	cn.core = nd.VCore()
	n := &NNode{CNode: cn, node: nd, trans: tr, conf: conf, vn: vn}
	vn.byAddr[p.Peer.NetAddr] = n
	vn.byNum[p.Num] = n
	vn.nodes = append(vn.nodes, n)
	return n
}

func (vn *VNet) Close() {
	for _, n := range vn.nodes {
		n.CNode.Close()
	}
}

func (n *NNode) peer() *peers.Peer { return n.part.Peer }

func (n *NNode) State() string { return n.node.GetState().String() }

// ------------------------------------------------------------------ sync observation

type syncBefore struct {
	roundsFrom int
}

func (c *CNode) beforeSync() *syncBefore {
	lcr := -1
	if c.core.Hg().LastConsensusRound != nil {
		lcr = *c.core.Hg().LastConsensusRound
	}
	pend := c.core.Hg().PendingRounds.GetOrderedPendingRounds()
	from := lcr
	if len(pend) > 0 && pend[0].Index < from {
		from = pend[0].Index
	}
	return &syncBefore{roundsFrom: from}
}

// idOfWire maps a wire event to the driver's id (honest, fork-free histories)
func (w *World) idOfWire(we *hg.WireEvent) string {
	c := 0
	if p := w.PartByID(we.Body.CreatorID); p != nil {
		c = p.Num
	}
	return fmt.Sprintf("c%d.%d", c, we.Body.Index)
}

// afterSync emits the Sync line of a receiver that just processed `wire`.
func (vn *VNet) afterSync(r *NNode, fromNum int, wire []hg.WireEvent, err error, b *syncBefore, full bool) {
	w := vn.w
	sent := []string{}
	garbage := 0
	sender := vn.byNum[fromNum]
	for i := range wire {
		id := w.idOfWire(&wire[i])
		// resolve through the sender's store (two incarnations of one
		// participant may have used the same index)
		if sender != nil {
			if p := w.PartByID(wire[i].Body.CreatorID); p != nil {
				if h, e := sender.store.ParticipantEvent(p.PubHex, wire[i].Body.Index); e == nil {
					if inf, ok := w.events[h]; ok {
						id = inf.ID
					}
				}
			}
		}
		if _, ok := w.byID[id]; !ok {
			// a wire event that names no event the driver knows (e.g. the wire fields of
			// a frame event re-served by a fast-forwarded node are zero): the receiver's
			// sync aborts here
			garbage++
			break
		}
		sent = append(sent, id)
	}
	inserted, hashes := []string{}, []string{}
	for _, id := range sent {
		inf, ok := w.byID[id]
		if !ok || r.view[inf.Hash] {
			continue
		}
		if _, e := r.store.GetEvent(inf.Hash); e == nil {
			r.markInserted(inf)
			inserted = append(inserted, id)
			hashes = append(hashes, inf.Hash)
		}
	}
	created := []string{}
	for _, inf := range r.collectNew() {
		w.EmitCreate(inf)
		r.markInserted(inf)
		created = append(created, inf.ID)
		hashes = append(hashes, inf.Hash)
	}
	o := r.Observe(hashes, b.roundsFrom, full)
	o["err"] = err != nil
	o["serr"] = false
	o["state"] = r.State()
	if err != nil {
		o["errmsg"] = err.Error()
		vn.errs++
	}
	vn.blocks += len(o["blocks"].([]interface{}))
	x := map[string]interface{}{"from": fromNum, "evs": sent, "ins": inserted, "new": created}
	if vn.syncTamper != nil || vn.hostile {
		x["tampered"] = true // the events named here were altered in transit: the ids are those of the originals
	}
	if garbage > 0 {
		x["unresolvable"] = garbage
		vn.unresolvable++
	}
	if r.fs != nil {
		if fired := r.fs.TakeFired(); len(fired) > 0 {
			if !r.lost {
				r.lostWhy = fired[0]
			}
			r.lost = true
			x["fault"] = fired[0]
		}
	}
	if r.lost {
		x["lost"] = r.lostWhy
	}
	w.Emit(r.num, "Sync", x, o)
	vn.steps++
}

// afterCrafted emits the Sync line of a node into which the driver inserted a
// crafted self-event (adversarial block-signature payload).
func (vn *VNet) afterCrafted(r *NNode, err error, b *syncBefore, kind string) {
	w := vn.w
	created, hashes := []string{}, []string{}
	for _, inf := range r.collectNew() {
		w.EmitCreate(inf)
		r.markInserted(inf)
		created = append(created, inf.ID)
		hashes = append(hashes, inf.Hash)
	}
	o := r.Observe(hashes, b.roundsFrom, true)
	o["err"] = err != nil
	o["serr"] = false
	o["state"] = r.State()
	if err != nil {
		o["errmsg"] = err.Error()
	}
	vn.blocks += len(o["blocks"].([]interface{}))
	x := map[string]interface{}{"from": 0, "evs": []string{}, "ins": []string{}, "new": created, "crafted": kind}
	if r.lost {
		x["lost"] = r.lostWhy
	}
	w.Emit(r.num, "Sync", x, o)
	vn.steps++
}

// Pull: a pulls from b (node.pull), emitting a's Sync line.
func (vn *VNet) Pull(a, b *NNode, full bool) (map[uint32]int, error) {
	before := a.beforeSync()
	vn.lastPull.wire = nil
	known, err := a.node.VPull(b.peer())
	vn.afterSync(a, b.num, vn.lastPull.wire, err, before, full)
	return known, err
}

// Push: a pushes to b what b does not know (node.push); b's Sync line is
// emitted from inside the transport.
func (vn *VNet) Push(a, b *NNode, known map[uint32]int) error {
	return a.node.VPush(b.peer(), known)
}

// Gossip: the pull-push exchange of node.gossip.
func (vn *VNet) Gossip(a, b *NNode, full bool) error {
	known, err := vn.Pull(a, b, full)
	if err != nil {
		return err
	}
	return vn.Push(a, b, known)
}

func (vn *VNet) EmitInit(extra map[string]interface{}) {
	nodes := []interface{}{}
	for _, n := range vn.nodes {
		nodes = append(nodes, map[string]interface{}{"n": n.num, "me": n.num, "store": n.kind, "cache": n.cache})
	}
	x := map[string]interface{}{
		"nc": len(vn.w.parts), "genesis": vn.nodes[0].genesis, "nodes": nodes,
		"delay": 6, "rootdepth": hg.ROOT_DEPTH, "coin": 4, "mode": "node",
	}
	for k, v := range extra {
		x[k] = v
	}
	vn.w.Emit(0, "Init", x, nil)
}

func (vn *VNet) Submit(n *NNode, id string, payload []byte) {
	n.node.VAddTransaction(payload)
	vn.w.Emit(n.num, "Submit", map[string]interface{}{"tx": id}, map[string]interface{}{"pool": len(n.core.TransactionPool()), "state": n.State()})
}

// apiRead: the node's read-only API (what the HTTP service serves): the validator
// set of past, current and future rounds, and blocks by index.  Reading must not
// change anything; what is read must be what the node's tables and delivered
// blocks say.
func (vn *VNet) apiRead(n *NNode) {
	w := vn.w
	lr := n.store.LastRound()
	sets := []interface{}{}
	for r := lr - 3; r <= lr+14; r++ {
		if r < 0 {
			continue
		}
		ps, err := n.node.GetValidatorSet(r)
		if err != nil {
			continue
		}
		sets = append(sets, map[string]interface{}{"r": r, "peers": w.PeerNums(ps)})
	}
	blocks := []interface{}{}
	last := n.node.GetLastBlockIndex()
	for q := 0; q < 3 && last >= 0; q++ {
		i := w.rng.Intn(last + 1)
		if b, err := n.node.GetBlock(i); err == nil {
			blocks = append(blocks, map[string]interface{}{"idx": i, "dig": bodyDigest(b)})
		}
	}
	w.Emit(n.num, "ApiRead", map[string]interface{}{"last_round": lr},
		map[string]interface{}{"sets": sets, "ps": n.psObs(), "blocks": blocks})
}
