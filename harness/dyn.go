package main

// "dyn" mode (C10, C01 across validator-set changes, C17 pieces): real Nodes
// with joins (accepted / refused by the application), leaves, re-joins, several
// requests inside one activation window, under random gossip.

import (
	"fmt"
	"time"

	hg "github.com/mosaicnetworks/babble/src/hashgraph"
	bnet "github.com/mosaicnetworks/babble/src/net"
	_state "github.com/mosaicnetworks/babble/src/node/state"
)

func init() { modes["dyn"] = runDyn }

// suspend limit of dyn-mode nodes: well above what runs with a quorum reach,
// reached in the no-quorum tail of a trace
const dynSuspendLimit = 40

type pendingOp struct {
	kind   string // join | leave
	n      *NNode
	via    *NNode
	done   chan error
	seen   bool // internal transaction observed in a pool
	itx    *ItxInfo
	accept bool
	holder *NNode
	nprom  int
}

func (vn *VNet) emitNodeUp(n *NNode, why string) {
	vn.w.Emit(n.num, "NodeUp", map[string]interface{}{"n": n.num, "me": n.num, "genesis": n.genesis, "why": why},
		map[string]interface{}{"state": n.State()})
}

// findItx looks for an internal transaction of the given type/peer in the pool of any node
func (vn *VNet) findItx(typ string, peer int) (*NNode, *hg.InternalTransaction) {
	for _, n := range vn.nodes {
		n.node.VLockCore()
		pool := n.core.InternalTransactionPool()
		n.node.VUnlockCore()
		for i := range pool {
			inf := vn.w.ItxInfoOf(&pool[i])
			if inf.Typ == typ && inf.Peer == peer && !vn.w.itxSeen[inf.ID] {
				t := pool[i]
				return n, &t
			}
		}
	}
	return nil, nil
}

func (vn *VNet) startJoin(j *NNode, via *NNode, accept bool) *pendingOp {
	op := &pendingOp{kind: "join", n: j, via: via, done: make(chan error, 1), accept: accept}
	go func() { op.done <- j.node.VJoin() }()
	vn.awaitItx(op, "add", j.num)
	return op
}

func (vn *VNet) startLeave(l *NNode, accept bool) *pendingOp {
	op := &pendingOp{kind: "leave", n: l, done: make(chan error, 1), accept: accept}
	go func() { op.done <- l.core.Leave(600 * time.Second) }()
	vn.awaitItx(op, "rem", l.num)
	return op
}

// awaitItx waits until the request's internal transaction sits in some pool
// (its linearization point: appended under coreLock), fixes the application's
// policy for it and emits the AddItx line.
func (vn *VNet) awaitItx(op *pendingOp, typ string, peer int) {
	deadline := time.Now().Add(5 * time.Second)
	for time.Now().Before(deadline) {
		select {
		case err := <-op.done:
			// finished without going through consensus (already a peer, refused signature, alone...)
			op.done <- err
			return
		default:
		}
		if holder, t := vn.findItx(typ, peer); t != nil {
			inf := vn.w.SetItxPolicy(t, op.accept)
			vn.w.itxSeen[inf.ID] = true
			op.itx = &inf
			op.seen = true
			op.holder = holder
			vn.w.Emit(holder.num, "AddItx", map[string]interface{}{"itx": inf, "for": op.n.num, "kind": op.kind},
				map[string]interface{}{"itxpool": len(holder.core.InternalTransactionPool()), "state": holder.State()})
			return
		}
		time.Sleep(200 * time.Microsecond)
	}
}

// poll completes operations whose promise was answered
func (vn *VNet) poll(ops []*pendingOp) []*pendingOp {
	rest := []*pendingOp{}
	for _, op := range ops {
		finished := false
		var err error
		if op.seen && op.holder.core.Promises() > 0 && vn.itxPending(op) {
			rest = append(rest, op)
			continue
		}
		// the promise was answered (or never created): wait for the parked goroutine
		// (a join returns as soon as the promise is answered; a leave then waits,
		// with wall-clock sleeps, until the node reaches its removed round, which
		// needs further gossip: poll it without blocking)
		wait := 200 * time.Millisecond
		if op.kind == "leave" {
			wait = 2 * time.Millisecond
		}
		select {
		case err = <-op.done:
			finished = true
		case <-time.After(wait):
		}
		if !finished {
			rest = append(rest, op)
			continue
		}
		x := map[string]interface{}{"kind": op.kind, "err": err != nil}
		if op.itx != nil {
			x["itx"] = op.itx.ID
		}
		if op.kind == "join" {
			x["acceptedRound"] = op.n.core.AcceptedRound()
		} else {
			x["removedRound"] = op.n.core.RemovedRound()
		}
		vn.w.Emit(op.n.num, "OpDone", x, map[string]interface{}{"state": op.n.State(), "acceptedRound": op.n.core.AcceptedRound(), "removedRound": op.n.core.RemovedRound()})
	}
	return rest
}

// itxPending: the request's internal transaction has not been committed by its holder yet
func (vn *VNet) itxPending(op *pendingOp) bool {
	for _, d := range op.holder.app.log {
		for i := range d.Block.InternalTransactions() {
			t := d.Block.InternalTransactions()[i]
			if vn.w.ItxInfoOf(&t).ID == op.itx.ID {
				return false
			}
		}
	}
	return true
}

func runDyn(o *Opts) *Summary {
	s := &Summary{Mode: "dyn", Extra: map[string]interface{}{}}
	var w *World
	joins, leaves, refused := 0, 0, 0
	restarts := 0
	rejoins := 0
	sigInj := map[string]int{}
	ffJoins := 0
	apiReads := 0
	selects := 0
	for t := 0; t < o.Traces; t++ {
		n0 := o.N
		if n0 == 0 {
			n0 = 2 + t%3
		}
		growth := o.Arg == "growth"
		if growth {
			n0 = 3
		}
		w2 := NewWorld(o.Seed*1000+int64(t), n0)
		if w == nil {
			w2.OpenTrace(o.Out)
		} else {
			w2.out, w2.outF, w2.lines = w.out, w.outF, w.lines
		}
		w = w2
		w.itxSeen = map[string]bool{}
		w.traceNo = t + 1
		w.tsBase = time.Now().Unix()
		vn := NewVNet(w)
		gen := []int{}
		for i := 1; i <= n0; i++ {
			gen = append(gen, i)
		}
		for _, k := range gen {
			n := vn.NewNode(w.parts[k-1], gen, gen, NodeOpts{Store: o.Store, Cache: o.Cache, Dir: o.Dir, SyncLimit: 40, SuspendLimit: dynSuspendLimit})
			n.node.Init()
		}
		vn.EmitInit(map[string]interface{}{"sched": "dyn", "seed": o.Seed*1000 + int64(t), "nc": 12})
		active := append([]*NNode{}, vn.nodes...) // nodes taking part in gossip
		ops := []*pendingOp{}
		left := []*NNode{}
		nextOp := 30 + w.rng.Intn(40)
		quiet, quietLeft := 0, 0
		var fallBehind *NNode // a node that is made to fall behind before it is sent back to CatchingUp
		// Byzantine validators (only their block-signature payloads are hostile):
		// one genesis validator when there are at least four, and every joiner
		byz := map[int]bool{}
		if n0 >= 4 {
			byz[n0] = true
		}
		for k := 0; k < o.Steps; k++ {
			if w.rng.Float64() < o.TxP {
				tgt := active[w.rng.Intn(len(active))]
				if tgt.State() == "Babbling" {
					id, payload := w.RandTx()
					vn.Submit(tgt, id, payload)
				}
			}
			// membership operations
			if k == nextOp && len(w.parts) < 11 {
				close2 := w.rng.Intn(3) == 0 // a second request right away (same activation window)
				nops := 1
				if close2 {
					nops = 2
				}
				for q := 0; q < nops; q++ {
					validators := []*NNode{}
					for _, n := range active {
						if n.State() == "Babbling" && n.core.Validators().ByID[n.part.ID] != nil && !vn.pendingFor(ops, n) {
							validators = append(validators, n)
						}
					}
					c := w.rng.Intn(5)
					if growth {
						c = 0 // the validator set only grows (3 -> 8)
					}
					switch {
					case o.Arg == "restart" && len(left) > 0 && left[0].kind == "badger" && len(validators) > 0 && w.rng.Intn(2) == 0:
						// a validator that left comes back over its own database: restart with
						// bootstrap (it replays its own removal, finds itself outside the
						// validator set and asks to join again)
						x := left[0]
						left = left[1:]
						via := validators[w.rng.Intn(len(validators))]
						m := vn.Restart(x, false, gen, NodeOpts{Store: "badger", Cache: o.Cache, Dir: o.Dir, SyncLimit: 40, SuspendLimit: dynSuspendLimit})
						replaced := false
						for i, q := range active {
							if q == x {
								active[i] = m
								replaced = true
							}
						}
						if !replaced {
							active = append(active, m)
						}
						restarts++
						rejoins++
						if m.State() == "Joining" {
							ops = append(ops, vn.startJoin(m, via, true))
							joins++
						}
					case c <= 2 || len(validators) <= 2: // join (new participant, or one that left)
						var p *Part
						if len(left) > 0 && w.rng.Intn(2) == 0 && o.Arg != "restart" {
							p = left[0].part
							left = left[1:]
						} else {
							p = w.AddPart()
						}
						if len(validators) == 0 {
							break
						}
						via := validators[w.rng.Intn(len(validators))]
						accept := w.rng.Intn(5) > 0 || growth
						fsync := o.Arg == "fastsync" && w.rng.Intn(3) > 0
						j := vn.NewNode(p, gen, []int{via.num}, NodeOpts{Store: "inmem", Cache: maxInt(o.Cache, 20000), SyncLimit: 40, FastSync: fsync, SuspendLimit: dynSuspendLimit})
						j.node.Init()
						vn.emitNodeUp(j, "join")
						ops = append(ops, vn.startJoin(j, via, accept))
						active = append(active, j)
						byz[j.num] = true
						joins++
						if !accept {
							refused++
						}
					default: // leave
						l := validators[w.rng.Intn(len(validators))]
						acc := w.rng.Intn(4) > 0 // the application refuses some leave requests
						ops = append(ops, vn.startLeave(l, acc))
						leaves++
						if !acc {
							refused++
						}
					}
				}
				nextOp = k + 25 + w.rng.Intn(70)
				if growth {
					nextOp = k + 20 + w.rng.Intn(25)
				}
			}
			// gossip among nodes that are babbling; now and then one of them stays
			// quiet for a few rounds (it creates no event in those rounds)
			if fallBehind != nil {
				quiet = fallBehind.num
			} else if quietLeft > 0 {
				quietLeft--
			} else if w.rng.Intn(60) == 0 {
				quiet = active[w.rng.Intn(len(active))].num
				quietLeft = 15 + w.rng.Intn(30)
			} else {
				quiet = 0
			}
			bab := []*NNode{}
			for _, n := range active {
				if n.State() == "Babbling" && n.num != quiet {
					bab = append(bab, n)
				}
			}
			if len(bab) >= 2 {
				a := bab[w.rng.Intn(len(bab))]
				b := bab[w.rng.Intn(len(bab))]
				if a != b {
					vn.Gossip(a, b, o.Full > 0 && k%o.Full == 0)
					// the peer selector: the exchange is recorded as Node.gossip does, and the
					// node is asked whom it would gossip with next
					if a.State() == "Babbling" {
						a.node.VSelectorUpdateLast(b.part.ID, true)
						picked := 0
						if p := a.node.VNextPeer(); p != nil {
							if q := w.PartByPub(p.PubKeyHex); q != nil {
								picked = q.Num
							} else {
								picked = -1
							}
						}
						w.Emit(a.num, "Select", map[string]interface{}{"self": a.num, "last": b.num, "peers": w.PeerNums(a.core.Peers().Peers)},
							map[string]interface{}{"picked": picked})
						selects++
					}
				}
			} else if len(bab) == 1 {
				vn.Monologue(bab[0])
			}
			ops = vn.poll(ops)
			// somebody reads a node's API now and then (validator sets of rounds the
			// node has not reached yet included)
			if w.rng.Intn(6) == 0 {
				if rd := active[w.rng.Intn(len(active))]; rd.State() == "Babbling" || rd.State() == "Suspended" {
					vn.apiRead(rd)
					apiReads++
				}
			}
			// joiners with fast-sync enabled are CatchingUp once accepted: they reset
			// from their peer's anchor (the join's own set is still pending then)
			for _, n := range active {
				if n.State() == "CatchingUp" && !vn.pendingFor(ops, n) {
					trusted := map[string]bool{}
					for _, pr := range n.core.Peers().Peers {
						trusted[canonKey(pr.PubKeyHex)] = true
					}
					for _, pr := range n.core.GenesisPeers().Peers {
						trusted[canonKey(pr.PubKeyHex)] = true
					}
					// a few tampered responses first (they must be refused), among them the
					// one topped up with signatures of known non-members
					tams := ffTamperings()
					adoptedTampered := false
					for q := 0; q < 3 && !adoptedTampered; q++ {
						tm := tams[w.rng.Intn(len(tams))]
						if q == 0 {
							for _, cand := range tams {
								if cand.name == "sigs-member-minority-topped-up-by-known-non-members" {
									tm = cand
								}
							}
						}
						adoptedTampered = vn.tryFF(n, tm.name, func(server *NNode, resp *bnet.FastForwardResponse) { tm.f(resp, w) }, trusted)
					}
					if adoptedTampered {
						continue
					}
					if !vn.tryFF(n, "none", nil, trusted) {
						// no anchor yet, or refused: fall back to babbling from scratch
						n.node.VTransition(_state.Babbling)
					} else {
						ffJoins++
					}
				}
			}
			// a node with history (it knows former validators and later joiners) is
			// sent back to CatchingUp and offered tampered responses, then a valid one
			// (babble only fast-forwards a node that is behind.  The node is first made to
			// fall behind: everybody pulls all its events, then it stays silent for 35
			// steps while the others go on - sending back a node that is ahead of its
			// peers would make it forget events nobody else holds and re-use their
			// heights.)
			if o.Arg == "fastsync" && k%110 == 35 && fallBehind == nil {
				olds := []*NNode{}
				for _, n := range active {
					if n.State() == "Babbling" && n.store.LastBlockIndex() > 3 && !vn.pendingFor(ops, n) {
						olds = append(olds, n)
					}
				}
				if len(olds) > 1 {
					fallBehind = olds[w.rng.Intn(len(olds))]
					for _, n := range active {
						if n != fallBehind && n.State() == "Babbling" {
							vn.Pull(n, fallBehind, false)
						}
					}
				}
			}
			if o.Arg == "fastsync" && k%110 == 70 {
				olds := []*NNode{}
				if fallBehind != nil && fallBehind.State() == "Babbling" && !vn.pendingFor(ops, fallBehind) {
					olds = append(olds, fallBehind, fallBehind)
				}
				fb := fallBehind
				fallBehind = nil
				if len(olds) > 1 {
					g := fb
					trusted := map[string]bool{}
					for _, pr := range g.core.Peers().Peers {
						trusted[canonKey(pr.PubKeyHex)] = true
					}
					for _, pr := range g.core.GenesisPeers().Peers {
						trusted[canonKey(pr.PubKeyHex)] = true
					}
					for _, pr := range g.core.Validators().Peers {
						trusted[canonKey(pr.PubKeyHex)] = true
					}
					g.node.VTransition(_state.CatchingUp)
					w.Emit(g.num, "StateChange", map[string]interface{}{"from": "Babbling", "to": "CatchingUp", "why": "driver"}, nil)
					tams := ffTamperings()
					adopted := false
					for q := 0; q < 2 && !adopted; q++ {
						tm := tams[w.rng.Intn(len(tams))]
						if q == 0 {
							for _, cand := range tams {
								if cand.name == "sigs-member-minority-topped-up-by-known-non-members" {
									tm = cand
								}
							}
						}
						adopted = vn.tryFF(g, tm.name, func(server *NNode, resp *bnet.FastForwardResponse) { tm.f(resp, w) }, trusted)
					}
					if !adopted && vn.tryFF(g, "none", nil, trusted) {
						ffJoins++
					}
					if g.State() != "Babbling" {
						g.node.VTransition(_state.Babbling)
					}
				}
			}
			// restarts (clean shutdown, or kill between two steps) of nodes with a
			// persistent store, bootstrap from the database, back into the network
			if o.Arg == "restart" && k%40 == 25 {
				cands := []*NNode{}
				for _, n := range active {
					busy := vn.pendingFor(ops, n)
					for _, op := range ops {
						if op.via == n || op.holder == n {
							busy = true
						}
					}
					if n.State() == "Babbling" && n.kind == "badger" && !busy {
						cands = append(cands, n)
					}
				}
				if len(cands) > 0 {
					r := cands[w.rng.Intn(len(cands))]
					kill := w.rng.Intn(2) == 0
					// one restart in three has fast-sync enabled while no peer can serve it
					m := vn.Restart(r, kill, gen, NodeOpts{Store: "badger", Cache: o.Cache, Dir: o.Dir, SyncLimit: 40, SuspendLimit: dynSuspendLimit,
						FastSync: w.rng.Intn(3) == 0})
					for i, q := range active {
						if q == r {
							active[i] = m
						}
					}
					restarts++
					if m.State() != "Babbling" {
						w.Emit(m.num, "Note", map[string]interface{}{"what": "restarted node is " + m.State()}, nil)
					}
				}
			}
			// Byzantine signature payloads
			if k%9 == 4 {
				cands := []*NNode{}
				for _, n := range active {
					if n.State() == "Babbling" && byz[n.num] {
						cands = append(cands, n)
					}
				}
				if len(cands) > 0 {
					if kd := vn.injectSigs(cands[w.rng.Intn(len(cands))]); kd != "" {
						sigInj[kd]++
					}
				}
			}
			// a validator that was removed keeps signing the blocks it still computes
			// (it holds the events): its signatures must not be recorded for rounds it
			// no longer belongs to.  A babbling node pulls the crafted event from it.
			if k%9 == 7 {
				for _, x := range left {
					if !byz[x.num] || x.State() != "Suspended" || x.core.RemovedRound() <= 0 {
						continue
					}
					if kd := vn.injectSigsKind(x, "recent-block"); kd != "" {
						sigInj["removed-validator-"+kd]++
						for _, b := range active {
							if b != x && b.State() == "Babbling" {
								vn.Pull(b, x, false)
								break
							}
						}
					}
					break
				}
			}
			// heartbeat duties: a removed node, or one with too many undetermined
			// events, suspends itself
			for _, n := range active {
				if n.State() == "Babbling" {
					before := n.State()
					undet := len(n.core.Hg().UndeterminedEvents)
					n.node.VCheckSuspend()
					w.Emit(n.num, "Heartbeat", map[string]interface{}{"undet": undet, "initial": n.node.VInitialUndeterminedEvents(),
						"limit": dynSuspendLimit, "nvals": n.core.Validators().Len(), "removedRound": n.core.RemovedRound(),
						"acceptedRound": n.core.AcceptedRound(), "lcr": n.node.GetLastConsensusRoundIndex(), "has_lcr": n.core.Hg().LastConsensusRound != nil},
						map[string]interface{}{"before": before, "after": n.State()})
					if n.State() != before {
						w.Emit(n.num, "StateChange", map[string]interface{}{"from": before, "to": n.State(), "why": "checkSuspend"},
							map[string]interface{}{"removedRound": n.core.RemovedRound(), "lcr": n.node.GetLastConsensusRoundIndex()})
						left = append(left, n)
					}
				}
			}
		}
		// let pending operations finish: keep gossiping
		for extra := 0; extra < 400 && len(ops) > 0; extra++ {
			bab := []*NNode{}
			for _, n := range active {
				if n.State() == "Babbling" {
					bab = append(bab, n)
				}
			}
			if len(bab) < 2 {
				break
			}
			a := bab[w.rng.Intn(len(bab))]
			b := bab[w.rng.Intn(len(bab))]
			if a != b {
				vn.Gossip(a, b, false)
			}
			ops = vn.poll(ops)
		}
		// no-quorum tail: fewer than a super-majority of the current validators keep
		// gossiping; undetermined events pile up until the nodes suspend themselves
		if len(ops) == 0 && t%2 == 0 && o.Arg != "restart" {
			bab := []*NNode{}
			for _, n := range active {
				if n.State() == "Babbling" && n.core.Validators().ByID[n.part.ID] != nil {
					bab = append(bab, n)
				}
			}
			if len(bab) >= 3 {
				nv := bab[0].core.Validators().Len()
				few := bab[:minInt(len(bab), (2*nv)/3)]
				for k := 0; len(few) >= 2 && k < 40+dynSuspendLimit*nv*4; k++ {
					a := few[w.rng.Intn(len(few))]
					b := few[w.rng.Intn(len(few))]
					if a == b || a.State() != "Babbling" || b.State() != "Babbling" {
						continue
					}
					vn.Gossip(a, b, false)
					for _, n := range []*NNode{a, b} {
						before := n.State()
						undet := len(n.core.Hg().UndeterminedEvents)
						n.node.VCheckSuspend()
						w.Emit(n.num, "Heartbeat", map[string]interface{}{"undet": undet, "initial": n.node.VInitialUndeterminedEvents(),
							"limit": dynSuspendLimit, "nvals": n.core.Validators().Len(), "removedRound": n.core.RemovedRound(),
							"acceptedRound": n.core.AcceptedRound(), "lcr": n.node.GetLastConsensusRoundIndex(), "has_lcr": n.core.Hg().LastConsensusRound != nil},
							map[string]interface{}{"before": before, "after": n.State()})
					}
				}
			}
		}
		s.Steps += vn.steps
		s.Events += len(w.events)
		s.Blocks += vn.blocks
		s.Errors += vn.errs
		if len(s.Samples) < 3 {
			s.Samples = append(s.Samples, map[string]interface{}{"trace": t + 1, "n0": n0, "participants": len(w.parts),
				"events": len(w.events), "blocks_delivered": vn.blocks, "unfinished_ops": len(ops)})
		}
		for _, n := range vn.nodes {
			if n.State() != "Shutdown" {
				n.node.VTransition(_state.Shutdown)
			}
		}
		vn.Close()
	}
	s.Extra["joins"] = joins
	s.Extra["restarts"] = restarts
	s.Extra["rejoins_over_own_database"] = rejoins
	s.Extra["leaves"] = leaves
	s.Extra["refused_by_app"] = refused
	s.Extra["valid_adopted"] = ffJoins
	s.Extra["api_reads"] = apiReads
	s.Extra["peer_selections"] = selects
	s.Extra["adversarial_signature_events"] = sigInj
	s.Traces = o.Traces
	s.Lines = w.lines
	w.CloseTrace()
	return s
}

// injectSigs: a Byzantine validator (an otherwise honest real node) publishes
// an event, signed with its own key on top of its own head, that carries
// adversarial block signatures.  The event goes through the node's own core so
// that the node never forks.
func (vn *VNet) injectSigs(x *NNode) string { return vn.injectSigsKind(x, "") }

func (vn *VNet) injectSigsKind(x *NNode, force string) string {
	w := vn.w
	last := x.store.LastBlockIndex()
	if last < 0 || x.core.Head() == "" {
		return ""
	}
	kinds := []string{"other-body", "old-block", "duplicate", "future-index", "negative-index", "recent-block"}
	kind := kinds[w.rng.Intn(len(kinds))]
	if force != "" {
		kind = force
	}
	var sigs []hg.BlockSignature
	pick := func(idx int) *hg.Block {
		b, err := x.store.GetBlock(idx)
		if err != nil {
			return nil
		}
		return b
	}
	switch kind {
	case "other-body": // a signature over a body that differs from the delivered one
		if b := pick(w.rng.Intn(last + 1)); b != nil {
			cp := *b
			cp.Body.Transactions = append(append([][]byte{}, b.Body.Transactions...), []byte("forged"))
			if sg, err := cp.Sign(x.part.Key); err == nil {
				sg.Index = b.Index()
				sigs = append(sigs, sg)
			}
		}
	case "old-block", "recent-block", "duplicate": // valid signatures; the signer may not belong to the block's round
		idx := 0
		if kind != "old-block" {
			idx = last - w.rng.Intn(minInt(3, last+1))
		} else {
			idx = w.rng.Intn(minInt(3, last+1))
		}
		if b := pick(idx); b != nil {
			if sg, err := b.Sign(x.part.Key); err == nil {
				sigs = append(sigs, sg)
			}
		}
	case "future-index":
		if b := pick(last); b != nil {
			if sg, err := b.Sign(x.part.Key); err == nil {
				sg.Index = last + 50 + w.rng.Intn(100)
				sigs = append(sigs, sg)
			}
		}
	case "negative-index":
		if b := pick(last); b != nil {
			if sg, err := b.Sign(x.part.Key); err == nil {
				sg.Index = -1 - w.rng.Intn(5)
				sigs = append(sigs, sg)
			}
		}
	}
	if len(sigs) == 0 {
		return ""
	}
	ev := hg.NewEvent(nil, nil, sigs, []string{x.core.Head(), ""}, x.part.Pub, x.core.Seq()+1)
	if err := ev.Sign(x.part.Key); err != nil {
		return ""
	}
	before := x.beforeSync()
	x.node.VLockCore()
	err := x.core.InsertEventAndRunConsensus(ev, true)
	if err == nil {
		err = x.core.ProcessSigPool()
	}
	x.node.VUnlockCore()
	vn.afterCrafted(x, err, before, kind)
	return kind
}

func (vn *VNet) pendingFor(ops []*pendingOp, n *NNode) bool {
	for _, op := range ops {
		if op.n == n {
			return true
		}
	}
	return false
}

// Monologue: node.monologue of a node alone
func (vn *VNet) Monologue(a *NNode) {
	before := a.beforeSync()
	err := a.node.VMonologue()
	vn.afterSync(a, 0, nil, err, before, false)
}

var _ = fmt.Sprintf
