package main

// Restarts in dyn mode (C11 with changing validator sets): a babbling node
// over a Badger store is shut down (clean), or killed between two steps (its
// database directory copied as it is on disk, the old object abandoned), and a
// new Node is created over the database with Bootstrap enabled; Init replays
// the database.  Lines: Crash, Create (events the driver had not seen),
// Bootstrap - the same as in persist mode.

import (
	"encoding/json"
	"fmt"
	"os"

	hg "github.com/mosaicnetworks/babble/src/hashgraph"
)

func (vn *VNet) Restart(n *NNode, kill bool, gen []int, o NodeOpts) *NNode {
	w := vn.w
	w.Emit(n.num, "Crash", map[string]interface{}{"from": 0, "kill": kill}, map[string]interface{}{"blocks": []interface{}{}, "clean": !kill})
	if kill {
		img := n.dir + "_img"
		if err := copyDir(n.dir, img); err != nil {
			panic(err)
		}
		n.node.Shutdown()
		os.RemoveAll(n.dir)
		if err := os.Rename(img, n.dir); err != nil {
			panic(err)
		}
	} else {
		n.node.Shutdown()
	}
	// forget the old incarnation
	rest := vn.nodes[:0]
	for _, q := range vn.nodes {
		if q != n {
			rest = append(rest, q)
		}
	}
	vn.nodes = rest
	o.Bootstrap = true
	m := vn.NewNode(n.part, gen, gen, o)
	bs := m.store.(*hg.BadgerStore)
	topo, terr := bs.VDbTopologicalEvents(0, 1<<30)
	order, hashes := []string{}, []string{}
	pending := []*EvInfo{}
	for _, e := range topo {
		inf, isNew := w.Register(e)
		if isNew {
			pending = append(pending, inf)
		}
		order = append(order, inf.ID)
		hashes = append(hashes, inf.Hash)
	}
	for _, inf := range pending {
		if sp := inf.Ev.SelfParent(); sp != "" {
			inf.SP = w.idOf(sp)
		}
		if op := inf.Ev.OtherParent(); op != "" {
			inf.OP = w.idOf(op)
		}
		w.EmitCreate(inf)
	}
	emitted := -1
	for _, other := range vn.nodes {
		if other.num == n.num {
			continue
		}
		if i, ok := other.core.KnownEvents()[n.part.ID]; ok && i > emitted {
			emitted = i
		}
	}
	ierr := m.node.Init()
	ffUnavailable := false
	if ierr == nil && o.FastSync && m.State() == "CatchingUp" {
		// fast-sync is enabled but nobody can serve a fast-forward right now (all
		// peers unreachable for that request): the node falls back to babbling
		// from what its database gave it
		saved := vn.down
		vn.down = map[int]bool{}
		for _, q := range vn.nodes {
			if q.num != m.num {
				vn.down[q.num] = true
			}
		}
		m.node.VFastForward()
		vn.down = saved
		ffUnavailable = true
	}
	for _, h := range hashes {
		if _, err := m.store.GetEvent(h); err == nil {
			m.view[h] = true
			m.undet[h] = true
		}
	}
	m.order = order
	if os.Getenv("PERSIST_DBG") != "" {
		for _, h := range hashes {
			cur, err := m.store.GetEvent(h)
			if err != nil {
				continue
			}
			a, _ := json.Marshal(cur.ToWire())
			b, _ := json.Marshal(w.events[h].Ev.ToWire())
			if string(a) != string(b) {
				fmt.Fprintf(os.Stderr, "DBG wire form differs for %s\n  restarted: %s\n  original:  %s\n", w.idOf(h), a, b)
				break
			}
		}
	}
	ob := m.Observe(hashes, 0, true)
	ob["err"] = ierr != nil || terr != nil
	if ierr != nil {
		ob["errmsg"] = ierr.Error()
	}
	ob["nev"] = len(m.view)
	ob["state"] = m.State()
	w.Emit(n.num, "Bootstrap", map[string]interface{}{"order": order, "emitted": emitted, "crash": kill, "me": n.num, "genesis": gen, "ff_unavailable": ffUnavailable}, ob)
	return m
}
