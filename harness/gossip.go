package main

// gossip traces in core mode, under several schedulers.

import (
	"fmt"
	"time"
)

type sched struct {
	name string
	// pick returns receiver, sender, limit (0: none) for step k; ok=false to skip
	pick func(k int) (a, b, limit int, ok bool)
}

func makeSched(w *World, name string, n, steps int) sched {
	rnd := w.rng
	limits := []int{0, 0, 0, 1, 2, 5}
	pair := func(set []int) (int, int) {
		a := set[rnd.Intn(len(set))]
		b := set[rnd.Intn(len(set))]
		for b == a {
			b = set[rnd.Intn(len(set))]
		}
		return a, b
	}
	all := []int{}
	for i := 1; i <= n; i++ {
		all = append(all, i)
	}
	switch name {
	case "laggard":
		// node n receives nothing for the first 60% of the steps, then one
		// event at a time; it still serves others
		lag := n
		others := all[:n-1]
		return sched{name, func(k int) (int, int, int, bool) {
			if n < 2 {
				return 0, 0, 0, false
			}
			if k < steps*6/10 {
				if len(others) < 2 {
					return others[0], lag, 0, true
				}
				a, b := pair(others)
				if rnd.Intn(5) == 0 {
					b = lag // others may pull from the laggard
				}
				return a, b, limits[rnd.Intn(len(limits))], true
			}
			if rnd.Intn(3) > 0 {
				b := others[rnd.Intn(len(others))]
				return lag, b, 1 + rnd.Intn(2), true
			}
			a, b := pair(all)
			return a, b, limits[rnd.Intn(len(limits))], true
		}}
	case "partition":
		// two sides gossip internally, then heal
		cut := n / 2
		left, right := all[:cut], all[cut:]
		return sched{name, func(k int) (int, int, int, bool) {
			if n < 3 {
				a, b := pair(all)
				return a, b, 0, true
			}
			if k < steps/2 {
				side := left
				if rnd.Intn(2) == 0 || len(left) < 2 {
					side = right
				}
				if len(side) < 2 {
					return 0, 0, 0, false
				}
				a, b := pair(side)
				return a, b, limits[rnd.Intn(len(limits))], true
			}
			a, b := pair(all)
			return a, b, limits[rnd.Intn(len(limits))], true
		}}
	case "silent":
		// the last floor((n-1)/3) nodes never take part
		f := (n - 1) / 3
		live := all[:n-f]
		return sched{name, func(k int) (int, int, int, bool) {
			if len(live) < 2 {
				return 0, 0, 0, false
			}
			a, b := pair(live)
			return a, b, limits[rnd.Intn(len(limits))], true
		}}
	case "ring":
		return sched{name, func(k int) (int, int, int, bool) {
			if n < 2 {
				return 0, 0, 0, false
			}
			a := k%n + 1
			b := (k+1)%n + 1
			return a, b, 0, true
		}}
	default: // random
		return sched{"random", func(k int) (int, int, int, bool) {
			if n < 2 {
				return 0, 0, 0, false
			}
			a, b := pair(all)
			return a, b, limits[rnd.Intn(len(limits))], true
		}}
	}
}

var schedNames = []string{"random", "laggard", "partition", "silent", "ring"}

func runGossip(seed int64, out string, traces, n, steps int, schedName, store string, cache int, dir string, txp float64, full int) *Summary {
	s := &Summary{Mode: "gossip"}
	faults := false
	if len(schedName) > 7 && schedName[:7] == "faults-" {
		faults = true
		schedName = schedName[7:]
	}
	nfaults := 0
	nlost := 0
	lossy := false
	if len(schedName) > 6 && schedName[:6] == "lossy-" {
		lossy = true
		schedName = schedName[6:]
	}
	// "rl-": the application's reply to a commit is lost now and then (nothing else is injected)
	replyLoss := false
	if len(schedName) > 3 && schedName[:3] == "rl-" {
		replyLoss = true
		schedName = schedName[3:]
	}
	nmangled := 0
	var w *World
	for t := 0; t < traces; t++ {
		nn := n
		if n == 0 { // vary N over traces
			nn = 1 + (t % 6)
		}
		w2 := NewWorld(seed*1000+int64(t), nn)
		if w == nil {
			w2.OpenTrace(out)
		} else {
			w2.out, w2.outF, w2.seq, w2.lines = w.out, w.outF, 0, w.lines
		}
		w = w2
		w.faults = faults
		w.traceNo = t + 1
		w.tsBase = time.Now().Unix()
		sn := schedName
		if sn == "mix" {
			sn = schedNames[t%len(schedNames)]
		}
		cn := NewCoreNet(w, CoreOpts{N: nn, Store: store, Cache: cache, Dir: dir})
		if lossy {
			cn.mangle = 0.2
			if t%2 == 1 {
				cn.EnableReentrant(0.25)
			}
		}
		cn.EmitInit(map[string]interface{}{"sched": sn, "seed": seed*1000 + int64(t), "lossy": lossy, "faults": faults})
		sc := makeSched(w, sn, nn, steps)
		outage := map[int]int{}
		for k := 0; k < steps; k++ {
			if w.rng.Float64() < txp {
				tgt := cn.nodes[w.rng.Intn(len(cn.nodes))]
				id, payload := w.RandTx()
				if lossy {
					switch w.rng.Intn(6) {
					case 0: // empty transaction
						id, payload = w.NewTx([]byte{})
					case 1: // duplicate content
						if len(w.txBytes) > 0 {
							id = fmt.Sprintf("t%d", 1+w.rng.Intn(len(w.txBytes)))
							payload = w.txBytes[id]
						}
					case 2: // binary, non UTF-8
						id, payload = w.NewTx([]byte{0xff, 0x00, 0xfe, byte(len(w.txBytes)), 0x80})
					}
				}
				cn.Submit(tgt, id, payload)
				if lossy && w.rng.Intn(4) == 0 { // burst
					id2, p2 := w.RandTx()
					cn.Submit(tgt, id2, p2)
				}
			}
			if nn == 1 {
				if replyLoss && k > steps/5 && w.rng.Intn(25) == 0 && cn.nodes[0].app.loseReply == 0 {
					cn.nodes[0].app.loseReply = 1 + w.rng.Intn(2)
					nlost++
				}
				cn.MonologueStep(cn.nodes[0], full > 0 && k%full == 0)
				continue
			}
			a, b, limit, ok := sc.pick(k)
			if !ok {
				continue
			}
			if faults && cn.byNum[a].fs != nil {
				fs := cn.byNum[a].fs
				switch {
				case outage[a] > 1:
					// frame writes keep failing: decided rounds pile up in the pending queue
					fs.ArmBurst("SetFrame")
					outage[a]--
					nfaults++
				case outage[a] == 1:
					// the outage is over; one more single failure hits the 1st..3rd
					// write while the piled-up rounds are processed in one pass
					// (frame writes: one per piled-up round, so the 2nd or 3rd
					// write fails inside the pass that processes several rounds)
					if w.rng.Intn(3) > 0 {
						fs.Arm("SetFrame", 2+w.rng.Intn(2))
					} else {
						fs.Arm([]string{"SetFrame", "SetBlock", "AddConsensusEvent"}[w.rng.Intn(3)], 1+w.rng.Intn(3))
					}
					outage[a] = 0
					nfaults++
				case k > steps/5 && w.rng.Intn(9) == 0:
					outage[a] = 6 + w.rng.Intn(9)
				case k > steps/5 && w.rng.Intn(4) == 0:
					m := faultMethods[w.rng.Intn(len(faultMethods))]
					if w.rng.Intn(2) == 0 {
						fs.ArmBurst(m) // outage of that write for the whole step
					} else {
						fs.Arm(m, 1+w.rng.Intn(4))
					}
					nfaults++
				}
			}
			if replyLoss && k > steps/5 && w.rng.Intn(25) == 0 && cn.byNum[a].app.loseReply == 0 {
				// the application processes a block but its reply is lost (socket proxy
				// hiccup): the node logs the error, keeps the block unsigned and goes on
				cn.byNum[a].app.loseReply = 1 + w.rng.Intn(2)
				nlost++
			}
			cn.SyncStep(cn.byNum[a], cn.byNum[b], limit, full > 0 && k%full == 0)
			if faults && cn.byNum[a].fs != nil && cn.byNum[a].fs.burst {
				cn.byNum[a].fs.Disarm()
			}
		}
		s.Steps += cn.steps
		s.Events += len(w.events)
		s.Blocks += cn.blocks
		s.Errors += cn.errs
		nmangled += cn.mangled
		if len(s.Samples) < 3 {
			s.Samples = append(s.Samples, map[string]interface{}{"trace": t + 1, "n": nn, "sched": sn,
				"events": len(w.events), "blocks_delivered": cn.blocks, "steps": cn.steps})
		}
		cn.Close()
	}
	s.Traces = traces
	s.Lines = w.lines
	s.Extra = map[string]interface{}{"store_faults_armed": nfaults, "commit_replies_lost_armed": nlost, "responses_mangled": nmangled}
	w.CloseTrace()
	return s
}

// MonologueStep mirrors node.monologue: if busy, addSelfEvent("") then
// processSigPool.
func (cn *CoreNet) MonologueStep(a *CNode, full bool) {
	if !a.core.Busy() {
		return
	}
	lcrBefore := -1
	if a.core.Hg().LastConsensusRound != nil {
		lcrBefore = *a.core.Hg().LastConsensusRound
	}
	pend := a.core.Hg().PendingRounds.GetOrderedPendingRounds()
	from := lcrBefore
	if len(pend) > 0 && pend[0].Index < from {
		from = pend[0].Index
	}
	err := a.core.AddSelfEvent("")
	var perr error
	if err == nil {
		perr = a.core.ProcessSigPool()
	}
	created := []string{}
	hashes := []string{}
	for _, inf := range a.collectNew() {
		cn.w.EmitCreate(inf)
		a.markInserted(inf)
		created = append(created, inf.ID)
		hashes = append(hashes, inf.Hash)
	}
	o := a.Observe(hashes, from, full)
	o["err"] = err != nil
	o["serr"] = perr != nil
	cn.blocks += len(o["blocks"].([]interface{}))
	mx := map[string]interface{}{"from": 0, "evs": []string{}, "ins": []string{}, "new": created}
	if cn.pred != nil {
		mx["pred"] = cn.pred
	}
	if a.app.lostFired && a.nospec == "" {
		a.nospec = "commit-reply-lost"
	}
	if a.nospec != "" {
		mx["nospec"] = a.nospec
	}
	cn.w.Emit(a.num, "Sync", mx, o)
	cn.steps++
}
