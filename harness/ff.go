package main

// "ff" mode (C12, C13, C14): fast-sync.  Real Nodes gossip until anchor blocks
// exist; a node that was down (or an extra observer state) fast-forwards from
// them.  Valid responses must be adopted and the node must stay on the chain;
// every tampering of a valid (block, frame, snapshot) triple and forged triples
// signed by strangers must be refused without touching the node or its
// application.  The driver computes the acceptance facts with its own code.

import (
	"bytes"
	"crypto/sha256"
	"encoding/hex"
	"fmt"
	"sort"
	"strings"
	"time"

	"github.com/mosaicnetworks/babble/src/crypto/keys"
	hg "github.com/mosaicnetworks/babble/src/hashgraph"
	bnet "github.com/mosaicnetworks/babble/src/net"
	_state "github.com/mosaicnetworks/babble/src/node/state"
	"github.com/mosaicnetworks/babble/src/peers"
)

func init() { modes["ff"] = runFF }

// ---------------------------------------------------------------- independent facts

func canonKey(k string) string {
	s := strings.ToUpper(strings.TrimSpace(k))
	s = strings.TrimPrefix(s, "0X")
	return "0X" + s
}

func driverPeersHash(ps []*peers.Peer) []byte {
	h := []byte{}
	for _, p := range ps {
		if p == nil {
			return nil
		}
		pk, err := hex.DecodeString(strings.TrimPrefix(strings.TrimPrefix(p.PubKeyHex, "0X"), "0x"))
		if err != nil {
			return nil
		}
		s := sha256.New()
		s.Write(h)
		s.Write(pk)
		h = s.Sum(nil)
	}
	return h
}

type ffFacts struct {
	FrameHashOK, PeersHashOK bool
	ValidSigners             []string // canonical keys of distinct members with a valid signature
	NPeers                   int
}

func (f ffFacts) valid() bool {
	return f.FrameHashOK && f.PeersHashOK && 3*len(f.ValidSigners) > f.NPeers
}

func ffFactsOf(resp *bnet.FastForwardResponse) (f ffFacts) {
	defer func() { recover() }()
	fh, err := resp.Frame.Hash() // the canonical frame encoding is the definition of the frame hash
	f.FrameHashOK = err == nil && bytes.Equal(fh, resp.Block.FrameHash())
	ph := driverPeersHash(resp.Frame.Peers)
	f.PeersHashOK = ph != nil && bytes.Equal(ph, resp.Block.PeersHash())
	members := map[string]*peers.Peer{}
	for _, p := range resp.Frame.Peers {
		if p != nil {
			members[canonKey(p.PubKeyHex)] = p
		}
	}
	f.NPeers = len(members)
	body, err := resp.Block.Body.Hash()
	if err != nil {
		return
	}
	seen := map[string]bool{}
	for k, sig := range resp.Block.Signatures {
		ck := canonKey(k)
		p, ok := members[ck]
		if !ok || seen[ck] {
			continue
		}
		func() {
			defer func() { recover() }()
			pub := keys.ToPublicKey(p.PubKeyBytes())
			r, s, err := keys.DecodeSignature(sig)
			if err != nil || r == nil || s == nil || pub == nil || pub.X == nil {
				return
			}
			if keys.Verify(pub, body, r, s) {
				seen[ck] = true
			}
		}()
	}
	for k := range seen {
		f.ValidSigners = append(f.ValidSigners, k)
	}
	sort.Strings(f.ValidSigners)
	return
}

// ---------------------------------------------------------------- tamperings of a valid response

type ffTamper struct {
	name string
	f    func(r *bnet.FastForwardResponse, w *World)
}

func flip(b []byte) []byte {
	c := append([]byte{}, b...)
	if len(c) == 0 {
		return []byte{1}
	}
	c[len(c)/2] ^= 0x01
	return c
}

func respellKey(k string, how int) string {
	body := strings.TrimPrefix(strings.TrimPrefix(k, "0X"), "0x")
	switch how {
	case 0:
		return "0x" + strings.ToLower(body)
	case 1:
		return "0X" + strings.ToLower(body)
	default:
		b := []byte(strings.ToUpper(body))
		for i := range b {
			if i%2 == 0 {
				b[i] = strings.ToLower(string(b[i]))[0]
			}
		}
		return "0X" + string(b)
	}
}

func ffTamperings() []ffTamper {
	ts := []ffTamper{
		{"block-index+1", func(r *bnet.FastForwardResponse, w *World) { r.Block.Body.Index++ }},
		{"block-roundreceived+1", func(r *bnet.FastForwardResponse, w *World) { r.Block.Body.RoundReceived++ }},
		{"block-timestamp+1", func(r *bnet.FastForwardResponse, w *World) { r.Block.Body.Timestamp++ }},
		{"block-statehash-flipped", func(r *bnet.FastForwardResponse, w *World) { r.Block.Body.StateHash = flip(r.Block.Body.StateHash) }},
		{"block-framehash-flipped", func(r *bnet.FastForwardResponse, w *World) { r.Block.Body.FrameHash = flip(r.Block.Body.FrameHash) }},
		{"block-peershash-flipped", func(r *bnet.FastForwardResponse, w *World) { r.Block.Body.PeersHash = flip(r.Block.Body.PeersHash) }},
		{"block-tx-added", func(r *bnet.FastForwardResponse, w *World) {
			r.Block.Body.Transactions = append(append([][]byte{}, r.Block.Body.Transactions...), []byte("injected"))
		}},
		{"block-tx-removed", func(r *bnet.FastForwardResponse, w *World) {
			if n := len(r.Block.Body.Transactions); n > 0 {
				r.Block.Body.Transactions = append([][]byte{}, r.Block.Body.Transactions[:n-1]...)
			} else {
				r.Block.Body.Transactions = [][]byte{[]byte("x")}
			}
		}},
		{"block-tx-altered", func(r *bnet.FastForwardResponse, w *World) {
			if len(r.Block.Body.Transactions) > 0 {
				txs := append([][]byte{}, r.Block.Body.Transactions...)
				txs[0] = flip(txs[0])
				r.Block.Body.Transactions = txs
			} else {
				r.Block.Body.Transactions = [][]byte{[]byte("y")}
			}
		}},
		{"block-receipt-flipped", func(r *bnet.FastForwardResponse, w *World) {
			if n := len(r.Block.Body.InternalTransactionReceipts); n > 0 {
				rc := append([]hg.InternalTransactionReceipt{}, r.Block.Body.InternalTransactionReceipts...)
				rc[0].Accepted = !rc[0].Accepted
				r.Block.Body.InternalTransactionReceipts = rc
			} else {
				r.Block.Body.StateHash = flip(r.Block.Body.StateHash)
			}
		}},
		{"frame-round+1", func(r *bnet.FastForwardResponse, w *World) { r.Frame.Round++ }},
		{"frame-timestamp+1", func(r *bnet.FastForwardResponse, w *World) { r.Frame.Timestamp++ }},
		{"frame-event-removed", func(r *bnet.FastForwardResponse, w *World) {
			if n := len(r.Frame.Events); n > 0 {
				r.Frame.Events = append([]*hg.FrameEvent{}, r.Frame.Events[:n-1]...)
			}
		}},
		{"frame-event-duplicated", func(r *bnet.FastForwardResponse, w *World) {
			if n := len(r.Frame.Events); n > 0 {
				r.Frame.Events = append(append([]*hg.FrameEvent{}, r.Frame.Events...), r.Frame.Events[0])
			}
		}},
		{"frame-events-reordered", func(r *bnet.FastForwardResponse, w *World) {
			if n := len(r.Frame.Events); n > 1 {
				evs := append([]*hg.FrameEvent{}, r.Frame.Events...)
				evs[0], evs[n-1] = evs[n-1], evs[0]
				r.Frame.Events = evs
			} else {
				r.Frame.Timestamp++
			}
		}},
		{"frame-event-payload-flipped", func(r *bnet.FastForwardResponse, w *World) {
			if len(r.Frame.Events) > 0 {
				fe := *r.Frame.Events[0]
				core := *fe.Core
				core.Body.Timestamp++
				fe.Core = &core
				evs := append([]*hg.FrameEvent{}, r.Frame.Events...)
				evs[0] = &fe
				r.Frame.Events = evs
			}
		}},
		{"frame-event-round-changed", func(r *bnet.FastForwardResponse, w *World) {
			if len(r.Frame.Events) > 0 {
				fe := *r.Frame.Events[0]
				fe.Round++
				evs := append([]*hg.FrameEvent{}, r.Frame.Events...)
				evs[0] = &fe
				r.Frame.Events = evs
			}
		}},
		{"frame-event-witness-changed", func(r *bnet.FastForwardResponse, w *World) {
			if len(r.Frame.Events) > 0 {
				fe := *r.Frame.Events[0]
				fe.Witness = !fe.Witness
				evs := append([]*hg.FrameEvent{}, r.Frame.Events...)
				evs[0] = &fe
				r.Frame.Events = evs
			}
		}},
		{"frame-event-lamport-changed", func(r *bnet.FastForwardResponse, w *World) {
			if len(r.Frame.Events) > 0 {
				fe := *r.Frame.Events[0]
				fe.LamportTimestamp += 3
				evs := append([]*hg.FrameEvent{}, r.Frame.Events...)
				evs[0] = &fe
				r.Frame.Events = evs
			}
		}},
		{"frame-root-event-changed", func(r *bnet.FastForwardResponse, w *World) {
			roots := map[string]*hg.Root{}
			done := false
			for k, v := range r.Frame.Roots {
				if !done && len(v.Events) > 0 {
					nr := hg.NewRoot()
					for i, fe := range v.Events {
						c := *fe
						if i == 0 {
							c.LamportTimestamp += 1
						}
						nr.Events = append(nr.Events, &c)
					}
					roots[k] = nr
					done = true
				} else {
					roots[k] = v
				}
			}
			r.Frame.Roots = roots
			if !done {
				r.Frame.Timestamp++
			}
		}},
		{"frame-root-removed", func(r *bnet.FastForwardResponse, w *World) {
			roots := map[string]*hg.Root{}
			skip := true
			for k, v := range r.Frame.Roots {
				if skip {
					skip = false
					continue
				}
				roots[k] = v
			}
			r.Frame.Roots = roots
		}},
		{"frame-peer-added", func(r *bnet.FastForwardResponse, w *World) {
			st := w.parts[len(w.parts)-1]
			r.Frame.Peers = append(append([]*peers.Peer{}, r.Frame.Peers...), peers.NewPeer(st.PubHex, "x", "x"))
		}},
		{"frame-peer-removed", func(r *bnet.FastForwardResponse, w *World) {
			if n := len(r.Frame.Peers); n > 1 {
				r.Frame.Peers = append([]*peers.Peer{}, r.Frame.Peers[:n-1]...)
			}
		}},
		{"frame-peers-reordered", func(r *bnet.FastForwardResponse, w *World) {
			if n := len(r.Frame.Peers); n > 1 {
				ps := append([]*peers.Peer{}, r.Frame.Peers...)
				ps[0], ps[n-1] = ps[n-1], ps[0]
				r.Frame.Peers = ps
			} else {
				r.Frame.Timestamp++
			}
		}},
		{"frame-peersets-entry-changed", func(r *bnet.FastForwardResponse, w *World) {
			m := map[int][]*peers.Peer{}
			for k, v := range r.Frame.PeerSets {
				m[k] = v
			}
			st := w.parts[len(w.parts)-1]
			m[0] = append(append([]*peers.Peer{}, m[0]...), peers.NewPeer(st.PubHex, "x", "x"))
			r.Frame.PeerSets = m
		}},
		{"sigs-all-removed", func(r *bnet.FastForwardResponse, w *World) { r.Block.Signatures = map[string]string{} }},
		{"sigs-down-to-threshold", func(r *bnet.FastForwardResponse, w *World) {
			// keep exactly TrustCount signatures: one fewer than needed
			n := len(r.Frame.Peers)
			keep := 0
			if n > 1 {
				keep = (n + 2) / 3
			}
			ks := []string{}
			for k := range r.Block.Signatures {
				ks = append(ks, k)
			}
			sort.Strings(ks)
			m := map[string]string{}
			for i, k := range ks {
				if i < keep {
					m[k] = r.Block.Signatures[k]
				}
			}
			r.Block.Signatures = m
		}},
		{"sigs-over-another-body", func(r *bnet.FastForwardResponse, w *World) {
			// all signatures replaced by signatures of the same validators over a different body
			cp := r.Block
			cp.Body.Timestamp += 99
			m := map[string]string{}
			for k := range r.Block.Signatures {
				if p := w.PartByPub(k); p != nil {
					if sg, err := cp.Sign(p.Key); err == nil {
						m[k] = sg.Signature
					}
				}
			}
			r.Block.Signatures = m
		}},
		{"sigs-by-non-members-only", func(r *bnet.FastForwardResponse, w *World) {
			st := w.parts[len(w.parts)-1]
			m := map[string]string{}
			if sg, err := r.Block.Sign(st.Key); err == nil {
				m[st.PubHex] = sg.Signature
			}
			r.Block.Signatures = m
		}},
	}
	ts = append(ts, ffTamper{"sigs-member-minority-topped-up-by-known-non-members", func(r *bnet.FastForwardResponse, w *World) {
		// at most n/3 member signatures, plus valid signatures of every other
		// key the driver holds (former validators, later joiners, strangers): none of
		// them belongs to the frame's validator set
		members := map[string]bool{}
		for _, p := range r.Frame.Peers {
			members[canonKey(p.PubKeyHex)] = true
		}
		n := len(members)
		// the largest number of member signatures that is not "more than one third"
		keep := n / 3
		ks := []string{}
		for k := range r.Block.Signatures {
			ks = append(ks, k)
		}
		sort.Strings(ks)
		m := map[string]string{}
		for i, k := range ks {
			if i < keep {
				m[k] = r.Block.Signatures[k]
			}
		}
		for _, p := range w.parts {
			if !members[canonKey(p.PubHex)] {
				if sg, err := r.Block.Sign(p.Key); err == nil {
					m[p.PubHex] = sg.Signature
				}
			}
		}
		r.Block.Signatures = m
	}})
	for how := 0; how < 3; how++ {
		h := how
		ts = append(ts, ffTamper{fmt.Sprintf("sigs-one-signer-respelled-%d", h), func(r *bnet.FastForwardResponse, w *World) {
			// a single member's signature under several spellings of its key
			ks := []string{}
			for k := range r.Block.Signatures {
				ks = append(ks, k)
			}
			sort.Strings(ks)
			if len(ks) == 0 {
				return
			}
			k := ks[0]
			m := map[string]string{k: r.Block.Signatures[k]}
			for j := 0; j <= h; j++ {
				m[respellKey(k, j)] = r.Block.Signatures[k]
			}
			r.Block.Signatures = m
		}})
	}
	return ts
}

// forged: a self-consistent triple made by strangers (keys outside every set the target knows)
func forgedResponse(w *World, strangers []*Part, like *bnet.FastForwardResponse) *bnet.FastForwardResponse {
	ps := []*peers.Peer{}
	for _, s := range strangers {
		ps = append(ps, peers.NewPeer(s.PubHex, "stranger", "stranger"))
	}
	frame := hg.Frame{Round: like.Frame.Round + 5, Peers: ps, Roots: map[string]*hg.Root{}, Events: []*hg.FrameEvent{},
		PeerSets: map[int][]*peers.Peer{0: ps}, Timestamp: like.Frame.Timestamp}
	for _, s := range strangers {
		frame.Roots[s.PubHex] = hg.NewRoot()
	}
	fh, _ := frame.Hash()
	block := hg.NewBlock(like.Block.Index()+7, frame.Round, fh, ps, [][]byte{[]byte("forged-history")}, []hg.InternalTransaction{}, frame.Timestamp)
	block.Body.StateHash = []byte("forged-state")
	for _, s := range strangers {
		sg, _ := block.Sign(s.Key)
		block.SetSignature(sg)
	}
	return &bnet.FastForwardResponse{FromID: like.FromID, Block: *block, Frame: frame, Snapshot: []byte("forged-snapshot")}
}

// ---------------------------------------------------------------- observation

func (n *NNode) ffDigest() string {
	h := sha256.New()
	h.Write([]byte(n.stateDigest()))
	fmt.Fprintf(h, "v=%v;p=%v;", n.w.PeerNums(n.core.Validators().Peers), n.w.PeerNums(n.core.Peers().Peers))
	fmt.Fprintf(h, "ps=%v;", n.psObs())
	fmt.Fprintf(h, "app=%x;restores=%d;", n.app.stateHash, len(n.app.restores))
	lcr := -1
	if n.core.Hg().LastConsensusRound != nil {
		lcr = *n.core.Hg().LastConsensusRound
	}
	anchor := -1
	if n.core.Hg().AnchorBlock != nil {
		anchor = *n.core.Hg().AnchorBlock
	}
	fmt.Fprintf(h, "lcr=%d;anchor=%d;", lcr, anchor)
	return hex.EncodeToString(h.Sum(nil))[:20]
}

// frameObs projects a frame for the specification's Reset
func (vn *VNet) frameObs(fr *hg.Frame) map[string]interface{} {
	w := vn.w
	info := []interface{}{}
	seen := map[string]bool{}
	add := func(fe *hg.FrameEvent) string {
		inf, isNew := w.Register(fe.Core)
		if isNew {
			w.EmitCreate(inf)
		}
		if !seen[inf.ID] {
			seen[inf.ID] = true
			info = append(info, map[string]interface{}{"e": inf.ID, "rnd": fe.Round, "wit": fe.Witness, "lt": fe.LamportTimestamp})
		}
		return inf.ID
	}
	roots := []interface{}{}
	pubs := []string{}
	for p := range fr.Roots {
		pubs = append(pubs, p)
	}
	sort.Slice(pubs, func(i, j int) bool {
		a, b := w.PartByPub(pubs[i]), w.PartByPub(pubs[j])
		if a == nil || b == nil {
			return pubs[i] < pubs[j]
		}
		return a.Num < b.Num
	})
	for _, p := range pubs {
		ids := []string{}
		for _, fe := range fr.Roots[p].Events {
			ids = append(ids, add(fe))
		}
		c := 0
		if q := w.PartByPub(p); q != nil {
			c = q.Num
		}
		roots = append(roots, map[string]interface{}{"c": c, "evs": ids})
	}
	evs := []string{}
	for _, fe := range fr.Events {
		evs = append(evs, add(fe))
	}
	psets := []interface{}{}
	rs := []int{}
	for r := range fr.PeerSets {
		rs = append(rs, r)
	}
	sort.Ints(rs)
	for _, r := range rs {
		psets = append(psets, map[string]interface{}{"r": r, "peers": w.PeerNums(fr.PeerSets[r])})
	}
	return map[string]interface{}{"round": fr.Round, "peers": w.PeerNums(fr.Peers), "roots": roots, "evs": evs, "psets": psets, "info": info}
}

func (vn *VNet) blockObsFF(b *hg.Block) map[string]interface{} {
	w := vn.w
	signers := []int{}
	for k := range b.Signatures {
		if p := w.PartByPub(canonKey(k)); p != nil {
			signers = append(signers, p.Num)
		}
	}
	sort.Ints(signers)
	rc := []bool{}
	for _, r := range b.InternalTransactionReceipts() {
		rc = append(rc, r.Accepted)
	}
	return map[string]interface{}{"idx": b.Index(), "rr": b.RoundReceived(), "txs": w.txIDs2(b.Transactions()),
		"itxs": w.itxIDs2(b.InternalTransactions()), "rcpt": rc, "signers": signers, "dig": bodyDigest(b)}
}

// tryFF makes node f run node.fastForward() with the given interception and logs the FFOffer line
func (vn *VNet) tryFF(f *NNode, desc string, tam func(server *NNode, resp *bnet.FastForwardResponse), trusted map[string]bool) (adopted bool) {
	w := vn.w
	var seen *bnet.FastForwardResponse
	var best *bnet.FastForwardResponse
	var bestFacts, seenFacts ffFacts
	var bestFrame, bestBlock map[string]interface{}
	vn.ffTamper = func(server *NNode, resp *bnet.FastForwardResponse) {
		if tam != nil {
			tam(server, resp)
		}
		// facts and projections are taken now, from the response as it is handed to
		// the node (a private copy: the node owns and mutates the objects afterwards)
		cpi := wireCopy(resp)
		cp, _ := cpi.(*bnet.FastForwardResponse)
		if cp == nil {
			c2 := *resp
			cp = &c2
		}
		fx := ffFactsOf(cp)
		seen, seenFacts = cp, fx
		if best == nil || cp.Block.Index() > best.Block.Index() {
			best, bestFacts = cp, fx
			func() {
				defer func() { recover() }()
				bestFrame, bestBlock = vn.frameObs(&cp.Frame), vn.blockObsFF(&cp.Block)
			}()
		}
	}
	before := f.ffDigest()
	prevState := f.State()
	var err error
	panicked := ""
	func() {
		defer func() {
			if r := recover(); r != nil {
				panicked = fmt.Sprint(r)
			}
		}()
		err = f.node.VFastForward()
	}()
	vn.ffTamper = nil
	if best == nil {
		best, bestFacts = seen, seenFacts
	}
	facts := ffFacts{}
	trustedSigner := false
	x := map[string]interface{}{"desc": desc, "prev_state": prevState}
	if best != nil {
		facts = bestFacts
		for _, k := range facts.ValidSigners {
			if trusted[k] {
				trustedSigner = true
			}
		}
		x["block_idx"] = best.Block.Index()
	}
	after := f.ffDigest()
	adopted = err == nil && panicked == "" && best != nil && f.store.LastBlockIndex() == best.Block.Index() &&
		f.node.GetLastConsensusRoundIndex() == best.Block.RoundReceived() && before != after
	x["fh"], x["ph"], x["nvalid"], x["npeers"], x["valid"], x["trusted_signer"] = facts.FrameHashOK, facts.PeersHashOK, len(facts.ValidSigners), facts.NPeers, facts.valid(), trustedSigner
	errmsg := ""
	if err != nil {
		errmsg = err.Error()
		if len(errmsg) > 90 {
			errmsg = errmsg[:90]
		}
	}
	o := map[string]interface{}{"adopted": adopted, "err": errmsg, "panicked": panicked != "", "panic": panicked,
		"changed": before != after, "state": f.State(), "restores": len(f.app.restores)}
	if adopted {
		// the specification resets the node from what was adopted
		if bestFrame == nil {
			bestFrame, bestBlock = vn.frameObs(&best.Frame), vn.blockObsFF(&best.Block)
		}
		x["frame"] = bestFrame
		x["block"] = bestBlock
		// the node's view is now the frame
		f.view = map[string]bool{}
		f.undet = map[string]bool{}
		for _, r := range best.Frame.Roots {
			for _, fe := range r.Events {
				f.view[fe.Core.Hex()] = true
			}
		}
		for _, fe := range best.Frame.Events {
			f.view[fe.Core.Hex()] = true
		}
		f.app.Drain()
		oo := f.Observe(nil, best.Block.RoundReceived(), true)
		for k, v := range oo {
			o[k] = v
		}
		frs := []interface{}{}
		seenID := map[uint32]bool{}
		for _, p := range w.parts {
			if seenID[p.ID] {
				continue // (a stranger with the 32-bit ID of a validator: the lookup is by ID)
			}
			seenID[p.ID] = true
			if fr, ok := f.store.FirstRound(p.ID); ok {
				frs = append(frs, map[string]interface{}{"c": p.Num, "fr": fr})
			}
		}
		o["firstrounds"] = frs
	}
	w.Emit(f.num, "FFOffer", x, o)
	vn.steps++
	return adopted
}

func runFF(o *Opts) *Summary {
	s := &Summary{Mode: "ff", Extra: map[string]interface{}{}}
	var w *World
	offers, adoptedValid, refused, forgedAdopted := 0, 0, 0, 0
	leavers := 0
	tams := ffTamperings()
	for t := 0; t < o.Traces; t++ {
		n := o.N
		if n == 0 {
			n = 4 + t%3
			if t%4 == 2 {
				// the trace in which a validator leaves first: six validators remain,
				// so that n/3 member signatures plus the leaver's exceed the threshold
				// the code uses while still not being "more than one third"
				n = 7
			}
		}
		if o.Arg == "window" {
			n = 7
		}
		w2 := NewWorld(o.Seed*1000+int64(t), n+3) // 3 strangers outside every validator set
		if w == nil {
			w2.OpenTrace(o.Out)
		} else {
			w2.out, w2.outF, w2.lines = w.out, w.outF, w.lines
		}
		w = w2
		w.itxSeen = map[string]bool{}
		w.traceNo = t + 1
		w.tsBase = time.Now().Unix()
		if t%4 == 3 {
			// a network started by a single founder, and a fast-sync joiner
			a, r, fa := runFFSingle(w, o, tams)
			adoptedValid, refused, forgedAdopted = adoptedValid+a, refused+r, forgedAdopted+fa
			offers += a + r + fa
			continue
		}
		if o.Arg == "twojoins" {
			a := runFFTwoJoins(w, o)
			adoptedValid += a
			offers += a
			s.Steps++
			continue
		}
		if o.Arg == "window" {
			a := runFFWindow(w, o)
			adoptedValid += a
			offers += a
			s.Steps++
			continue
		}
		colliding := t%4 == 1
		if colliding {
			// validator 1 and the first stranger have the same 32-bit peer ID
			w.SetKey(1, collidingKeyA)
			w.SetKey(n+1, collidingKeyB)
		}
		vn := NewVNet(w)
		gen := []int{}
		for i := 1; i <= n; i++ {
			gen = append(gen, i)
		}
		strangers := w.parts[n:]
		// validators 1..n-1 run from the start; validator n is down and will fast-forward
		for _, k := range gen[:n-1] {
			nd := vn.NewNode(w.parts[k-1], gen, gen, NodeOpts{Store: o.Store, Cache: o.Cache, Dir: o.Dir, SyncLimit: 40})
			nd.node.Init()
		}
		vn.EmitInit(map[string]interface{}{"sched": "ff", "seed": o.Seed*1000 + int64(t), "nc": n + 3})
		run := vn.nodes
		gossip := func(steps int, who []*NNode) {
			for k := 0; k < steps; k++ {
				if w.rng.Float64() < o.TxP {
					tgt := who[w.rng.Intn(len(who))]
					if tgt.State() == "Babbling" {
						id, payload := w.RandTx()
						vn.Submit(tgt, id, payload)
					}
				}
				a := who[w.rng.Intn(len(who))]
				b := who[w.rng.Intn(len(who))]
				if a != b && a.State() == "Babbling" && b.State() == "Babbling" {
					vn.Gossip(a, b, true)
				}
			}
		}
		gossip(o.Steps/2, run)
		// in some traces a validator leaves before the fast-forward: the victim knows
		// it (genesis) although it is no longer in the anchor's validator set
		if t%4 == 2 && n >= 5 {
			l := run[len(run)-1]
			ops := []*pendingOp{vn.startLeave(l, true)}
			for k := 0; k < 900 && len(ops) > 0; k++ {
				gossip(1, run)
				if l.State() == "Babbling" {
					before := l.State()
					l.node.VCheckSuspend()
					if l.State() != before {
						w.Emit(l.num, "StateChange", map[string]interface{}{"from": before, "to": l.State(), "why": "checkSuspend"},
							map[string]interface{}{"removedRound": l.core.RemovedRound(), "lcr": l.node.GetLastConsensusRoundIndex()})
					}
				}
				ops = vn.poll(ops)
			}
			rest := []*NNode{}
			for _, nd := range run {
				if nd != l {
					rest = append(rest, nd)
				}
			}
			if len(ops) == 0 {
				leavers++
			}
			run = rest
			gossip(o.Steps/3, run)
		}
		trusted := map[string]bool{}
		for _, k := range gen {
			trusted[canonKey(w.parts[k-1].PubHex)] = true
		}
		// the fast-forwarding node
		f := vn.NewNode(w.parts[n-1], gen, gen, NodeOpts{Store: "inmem", Cache: o.Cache, SyncLimit: 40, FastSync: true})
		f.node.Init()
		vn.emitNodeUp(f, "fast-sync")
		hasAnchor := false
		for _, nd := range run {
			if nd.core.Hg().AnchorBlock != nil {
				hasAnchor = true
			}
		}
		if !hasAnchor {
			vn.Close()
			continue
		}
		// (1) tampered responses: all refused, nothing touched
		ntam := 10
		if o.Arg == "all" {
			ntam = len(tams)
		}
		for q := 0; q < ntam; q++ {
			tm := tams[(t*7+q)%len(tams)]
			if o.Arg != "all" {
				tm = tams[w.rng.Intn(len(tams))]
			}
			if vn.tryFF(f, tm.name, func(server *NNode, resp *bnet.FastForwardResponse) { tm.f(resp, w) }, trusted) {
				break // adopted a tampered response: the trace says so; go on from there
			}
			refused++
			offers++
		}
		// (2) forged triples signed by strangers only
		if colliding {
			if vn.tryFF(f, "forged-by-a-stranger-whose-id-equals-a-validators", func(server *NNode, resp *bnet.FastForwardResponse) {
				*resp = *forgedResponse(w, strangers[:1], resp)
			}, trusted) {
				forgedAdopted++
			} else {
				refused++
			}
			offers++
		}
		for k := 1; k <= len(strangers); k += 2 {
			st := strangers[:k]
			if vn.tryFF(f, fmt.Sprintf("forged-by-%d-strangers", k), func(server *NNode, resp *bnet.FastForwardResponse) {
				*resp = *forgedResponse(w, st, resp)
			}, trusted) {
				forgedAdopted++
				break
			}
			offers++
		}
		// (3) the valid response: adopted; then the node stays on the chain
		if f.State() == "CatchingUp" {
			if vn.tryFF(f, "none", nil, trusted) {
				adoptedValid++
			}
			offers++
		}
		all := append(append([]*NNode{}, run...), f)
		gossip(o.Steps/2, all)
		// (4) a node with history is sent back to CatchingUp and offered tampered responses, then a valid one
		// (a node with history over a Badger store keeps, after the reset, the blocks
		// and events of its previous life in the database, which the specification
		// does not model: the anchor may jump to an old fully signed block.  Such a
		// node is marked "lost" once it adopted a response: the specification stops
		// following it, the checks on what it delivers and stores go on.)
		if t%2 == 0 {
			g := run[0]
			// In every other of these, the only reachable server is a node that fell
			// behind: its anchor lies behind g's own last block (a reset backwards).
			// babble only fast-forwards a node that is behind: everybody pulls all of g's
			// events, then g stays silent while the others go on.  (Sending back a node
			// that is ahead of its peers makes it forget events nobody else holds and
			// re-use their heights.)
			var lag *NNode
			if t%4 == 0 && len(run) >= 3 && o.Store != "badger" {
				// the backward variant: g is only moderately behind, and the one peer it
				// reaches for its fast-forward request is behind g's own tip (it resets
				// to a block index below its last block).  Not over a Badger store (the
				// database keeps the events of before the reset).
				lag = run[len(run)-1]
				rest := []*NNode{}
				for _, nd := range all {
					if nd != lag {
						rest = append(rest, nd)
					}
				}
				gossip(o.Steps/3, rest)
				for _, nd := range all {
					if nd != lag && nd != g {
						vn.down[nd.num] = true
					}
				}
			} else {
				others := []*NNode{}
				quick := o.Store == "badger" && t%4 == 0
				if quick {
					// the node is up to date when it restarts: it holds every block its
					// peers hold
					for round := 0; round < 3; round++ {
						for _, nd := range all {
							if nd != g && nd.State() == "Babbling" && g.State() == "Babbling" {
								vn.Pull(g, nd, false)
							}
						}
					}
				}
				for _, nd := range all {
					if nd != g {
						others = append(others, nd)
						if nd.State() == "Babbling" {
							vn.Pull(nd, g, false)
						}
					}
				}
				if quick {
					// a quick restart: the anchor it is served is a block its database
					// already holds
				} else {
					gossip(o.Steps/3, others)
				}
			}
			preSeq := g.core.Seq()
			g.node.VTransition(_state.CatchingUp)
			w.Emit(g.num, "StateChange", map[string]interface{}{"from": "Babbling", "to": "CatchingUp", "why": "driver"}, nil)
			for q := 0; q < 4; q++ {
				tm := tams[w.rng.Intn(len(tams))]
				if vn.tryFF(g, tm.name, func(server *NNode, resp *bnet.FastForwardResponse) { tm.f(resp, w) }, trusted) {
					break
				}
				refused++
				offers++
			}
			if g.State() == "CatchingUp" {
				desc := "none"
				if lag != nil {
					desc = "none-from-lagging-server"
				}
				if vn.tryFF(g, desc, nil, trusted) {
					adoptedValid++
					if o.Store == "badger" && !g.lost {
						g.lost, g.lostWhy = true, "database-leftovers-after-reset"
					}
				}
				offers++
			}
			vn.down = map[int]bool{}
			if g.State() != "Babbling" {
				g.node.VTransition(_state.Babbling)
			}
			// A node that reset below its own tip has forgotten events of its own that the
			// others hold.  Before it creates anything it gets them back: one pull, with
			// the sync limits lifted, from the peer that holds most (a truncated first
			// response could leave them out and the node would sign other events at
			// the same heights - a self-fork the property excludes).
			if g.core.Seq() < preSeq {
				var src *NNode
				for _, nd := range all {
					if nd != g && nd.State() == "Babbling" && (src == nil || len(nd.view) > len(src.view)) {
						src = nd
					}
				}
				if src != nil {
					old := map[*NNode]int{}
					for _, nd := range all {
						old[nd] = nd.conf.SyncLimit
						nd.conf.SyncLimit = 1000000
					}
					vn.Pull(g, src, true)
					for nd, l := range old {
						nd.conf.SyncLimit = l
					}
				}
			}
			gossip(o.Steps/4, all)
		}
		s.Steps += vn.steps
		s.Events += len(w.events)
		s.Blocks += vn.blocks
		s.Errors += vn.errs
		if len(s.Samples) < 3 {
			s.Samples = append(s.Samples, map[string]interface{}{"trace": t + 1, "n": n, "events": len(w.events), "blocks_delivered": vn.blocks})
		}
		for _, nd := range vn.nodes {
			nd.node.VTransition(_state.Shutdown)
		}
		vn.Close()
	}
	s.Extra["offers"] = offers
	s.Extra["leaves_before_fast_forward"] = leavers
	s.Extra["valid_adopted"] = adoptedValid
	s.Extra["refused"] = refused
	s.Extra["forged_adopted"] = forgedAdopted
	s.Extra["tamperings"] = len(tams)
	s.Traces = o.Traces
	s.Lines = w.lines
	w.CloseTrace()
	return s
}

// runFFSingle: genesis = one founder, which builds its chain alone; a joiner
// with fast-sync enabled (it knows the founder only) is offered forged
// responses signed by strangers, tampered responses, then the valid one.
func runFFSingle(w *World, o *Opts, tams []ffTamper) (adoptedValid, refused, forgedAdopted int) {
	vn := NewVNet(w)
	defer vn.Close()
	gen := []int{1}
	founder := vn.NewNode(w.parts[0], gen, gen, NodeOpts{Store: "inmem", Cache: o.Cache, SyncLimit: 40})
	founder.node.Init()
	vn.EmitInit(map[string]interface{}{"sched": "ff-single-founder", "nc": len(w.parts)})
	for k := 0; k < o.Steps/3; k++ {
		if w.rng.Float64() < 0.6 {
			id, payload := w.RandTx()
			vn.Submit(founder, id, payload)
		}
		vn.Monologue(founder)
	}
	if founder.core.Hg().AnchorBlock == nil {
		return
	}
	j := vn.NewNode(w.parts[1], gen, gen, NodeOpts{Store: "inmem", Cache: o.Cache, SyncLimit: 40, FastSync: true})
	j.node.Init()
	vn.emitNodeUp(j, "fast-sync")
	prev := j.State()
	strangers := w.parts[2:]
	if prev == "Joining" {
		// a hostile answer to the join request: "accepted", with a self-made list of
		// peers (the strangers that will sign the forged fast-forward responses).  An
		// unauthenticated peer list must not become a reason to trust anybody.
		vn.joinForge = func(req *bnet.JoinRequest) *bnet.JoinResponse {
			ps := []*peers.Peer{}
			for _, sp := range strangers {
				ps = append(ps, sp.Peer)
			}
			return &bnet.JoinResponse{FromID: w.parts[0].ID, Accepted: true, AcceptedRound: 0, Peers: ps}
		}
		jerr := j.node.VJoin()
		vn.joinForge = nil
		w.Emit(j.num, "StateChange", map[string]interface{}{"from": prev, "to": j.State(), "why": fmt.Sprintf("hostile-join-response (err=%v)", jerr)}, nil)
	}
	if j.State() != "CatchingUp" {
		j.node.VTransition(_state.CatchingUp)
		w.Emit(j.num, "StateChange", map[string]interface{}{"from": prev, "to": "CatchingUp", "why": "driver"}, nil)
	}
	trusted := map[string]bool{canonKey(w.parts[0].PubHex): true}
	for k := 1; k <= len(strangers); k += 2 {
		st := strangers[:k]
		if vn.tryFF(j, fmt.Sprintf("forged-by-%d-strangers-single-founder", k), func(server *NNode, resp *bnet.FastForwardResponse) {
			*resp = *forgedResponse(w, st, resp)
		}, trusted) {
			forgedAdopted++
			return
		}
		refused++
	}
	for q := 0; q < 6; q++ {
		tm := tams[w.rng.Intn(len(tams))]
		if vn.tryFF(j, tm.name, func(server *NNode, resp *bnet.FastForwardResponse) { tm.f(resp, w) }, trusted) {
			return
		}
		refused++
	}
	if j.State() == "CatchingUp" && vn.tryFF(j, "none", nil, trusted) {
		adoptedValid++
	}
	return
}

// runFFWindow: resets inside the activation window of a membership change.
// Seven validators; validator 7 goes quiet; a join is submitted and committed;
// around the time it takes effect (six rounds later) nodes 3 and 2, after having
// fallen behind, are sent to CatchingUp and reset themselves from a peer's anchor,
// whose frame carries the peer-set history; then everybody but the quiet validator
// keeps gossiping.
func runFFWindow(w *World, o *Opts) (adopted int) {
	// (seven validators, one of them quiet: five others keep a super-majority while
	// the node that is going to reset falls behind)
	n := 7
	vn := NewVNet(w)
	defer vn.Close()
	gen := []int{1, 2, 3, 4, 5, 6, 7}
	for _, k := range gen {
		nd := vn.NewNode(w.parts[k-1], gen, gen, NodeOpts{Store: "inmem", Cache: o.Cache, SyncLimit: 40, FastSync: true})
		nd.node.Init()
		if nd.State() != "Babbling" {
			nd.node.VTransition(_state.Babbling)
		}
	}
	vn.EmitInit(map[string]interface{}{"sched": "ff-window", "nc": n + 4})
	all := append([]*NNode{}, vn.nodes...)
	gossip := func(steps int, who []*NNode, ops *[]*pendingOp) {
		for k := 0; k < steps; k++ {
			if w.rng.Float64() < o.TxP {
				tgt := who[w.rng.Intn(len(who))]
				if tgt.State() == "Babbling" {
					id, payload := w.RandTx()
					vn.Submit(tgt, id, payload)
				}
			}
			a := who[w.rng.Intn(len(who))]
			b := who[w.rng.Intn(len(who))]
			if a != b && a.State() == "Babbling" && b.State() == "Babbling" {
				vn.Gossip(a, b, true)
			}
			if ops != nil {
				*ops = vn.poll(*ops)
			}
		}
	}
	gossip(o.Steps/3, all, nil)
	active := all[:6] // validator 7 is quiet from here on
	w.itxSeen = map[string]bool{}
	jp := w.parts[n] // the first spare participant joins
	j := vn.NewNode(jp, gen, []int{1}, NodeOpts{Store: "inmem", Cache: o.Cache, SyncLimit: 40})
	j.node.Init()
	vn.emitNodeUp(j, "join")
	ops := []*pendingOp{vn.startJoin(j, all[0], true)}
	// until the request is committed by its holder
	for k := 0; k < 400 && len(ops) > 0; k++ {
		gossip(1, active, &ops)
	}
	if len(ops) > 0 {
		return
	}
	trusted := map[string]bool{}
	for _, p := range w.parts[:n+1] {
		trusted[canonKey(p.PubHex)] = true
	}
	// resets inside the window: each one draws its own iteration order over the
	// frame's peer-set table
	for _, g := range []*NNode{all[2], all[1], all[2]} {
		gossip(6, active, nil)
		prev := g.State()
		if prev != "Babbling" {
			continue
		}
		// babble only fast-forwards a node that is behind: a node that reset below its
		// own tip would forget events the others hold and sign other events at the same
		// heights.  So everybody pulls g's events, then the others go on without g
		// until every possible server's anchor has received g's last event.
		others := []*NNode{}
		for _, p := range active {
			if p != g {
				others = append(others, p)
				vn.Pull(p, g, true)
			}
		}
		if j.State() == "Babbling" {
			// (once the join is effective the set has eight members: the joiner is
			// needed for a super-majority without g and the quiet validator)
			others = append(others, j)
		}
		good := map[int]bool{} // servers whose anchor has received g's last event
		for k := 0; k < 150 && len(good) < 2; k++ {
			gossip(1, others, nil)
			good = map[int]bool{}
			for _, p := range others {
				hgr := p.core.Hg()
				if hgr.AnchorBlock == nil {
					continue
				}
				blk, err := hgr.Store.GetBlock(*hgr.AnchorBlock)
				rr, err2 := hgr.VRoundReceived(g.core.Head())
				if err == nil && err2 == nil && rr >= 0 && rr <= blk.RoundReceived() {
					good[p.num] = true
				}
			}
		}
		if len(good) == 0 {
			continue
		}
		g.node.VTransition(_state.CatchingUp)
		w.Emit(g.num, "StateChange", map[string]interface{}{"from": prev, "to": "CatchingUp", "why": "driver"}, nil)
		vn.down[7] = true // the quiet validator does not serve either
		for _, p := range others {
			if !good[p.num] {
				vn.down[p.num] = true // (its anchor lies below g's own tip)
			}
		}
		vn.down[j.num] = true
		if vn.tryFF(g, "none", nil, trusted) {
			adopted++
		}
		vn.down = map[int]bool{}
		if g.State() != "Babbling" {
			g.node.VTransition(_state.Babbling)
		}
	}
	gossip(o.Steps/2, append(append([]*NNode{}, active...), j), nil)
	for _, nd := range vn.nodes {
		nd.node.VTransition(_state.Shutdown)
	}
	return
}

// runFFTwoJoins: the anchor block itself carries a membership receipt, and it is
// not the first change of the history.  Three (or four) validators; X joins and
// stays silent; then Z joins with fast-sync enabled while nothing else is
// submitted, so that the block with Z's receipt stays the last block and becomes
// the anchor; Z - a fresh node that only knows the genesis peers - resets from it
// and everybody keeps gossiping past both activation rounds.
func runFFTwoJoins(w *World, o *Opts) (adopted int) {
	n := 3 + w.traceNo%2
	vn := NewVNet(w)
	defer vn.Close()
	gen := []int{}
	for i := 1; i <= n; i++ {
		gen = append(gen, i)
	}
	for _, k := range gen {
		nd := vn.NewNode(w.parts[k-1], gen, gen, NodeOpts{Store: "inmem", Cache: o.Cache, SyncLimit: 40})
		nd.node.Init()
	}
	vn.EmitInit(map[string]interface{}{"sched": "ff-twojoins", "nc": n + 4})
	all := append([]*NNode{}, vn.nodes...)
	gossip := func(steps int, who []*NNode, ops *[]*pendingOp, txp float64) {
		for k := 0; k < steps; k++ {
			if w.rng.Float64() < txp {
				tgt := who[w.rng.Intn(len(who))]
				if tgt.State() == "Babbling" {
					id, payload := w.RandTx()
					vn.Submit(tgt, id, payload)
				}
			}
			a := who[w.rng.Intn(len(who))]
			b := who[w.rng.Intn(len(who))]
			if a != b && a.State() == "Babbling" && b.State() == "Babbling" {
				vn.Gossip(a, b, true)
			}
			if ops != nil {
				*ops = vn.poll(*ops)
			}
		}
	}
	gossip(40+w.rng.Intn(40), all, nil, o.TxP)
	w.itxSeen = map[string]bool{}
	// X joins (no fast-sync) and then stays silent
	x := vn.NewNode(w.parts[n], gen, []int{1}, NodeOpts{Store: "inmem", Cache: o.Cache, SyncLimit: 40})
	x.node.Init()
	vn.emitNodeUp(x, "join")
	ops := []*pendingOp{vn.startJoin(x, all[0], true)}
	for k := 0; k < 400 && len(ops) > 0; k++ {
		gossip(1, all, &ops, o.TxP)
	}
	if len(ops) > 0 {
		return
	}
	// a few rounds later (inside or after X's activation window) Z joins with fast-sync
	gossip(w.rng.Intn(30), all, nil, o.TxP)
	z := vn.NewNode(w.parts[n+1], gen, []int{2}, NodeOpts{Store: "inmem", Cache: o.Cache, SyncLimit: 40, FastSync: true})
	z.node.Init()
	vn.emitNodeUp(z, "join")
	ops = []*pendingOp{vn.startJoin(z, all[1], true)}
	for k := 0; k < 400 && len(ops) > 0; k++ {
		gossip(1, all, &ops, 0) // nothing else is submitted: the receipt's block stays the last one
	}
	if len(ops) > 0 {
		return
	}
	// until the last block (the one with Z's receipt) is the anchor of Z's peer
	for k := 0; k < 80; k++ {
		hgr := all[1].core.Hg()
		if hgr.AnchorBlock != nil && *hgr.AnchorBlock == hgr.Store.LastBlockIndex() {
			break
		}
		gossip(1, all, nil, 0)
	}
	trusted := map[string]bool{}
	for _, p := range w.parts[:n+2] {
		trusted[canonKey(p.PubHex)] = true
	}
	if z.State() == "CatchingUp" {
		vn.down[x.num] = true
		if vn.tryFF(z, "none", nil, trusted) {
			adopted++
		}
		vn.down = map[int]bool{}
		if z.State() != "Babbling" {
			z.node.VTransition(_state.Babbling)
		}
	}
	// everybody (X stays silent) gossips past both activation rounds
	gossip(o.Steps/2, append(append([]*NNode{}, all...), z), nil, o.TxP)
	for _, nd := range vn.nodes {
		nd.node.VTransition(_state.Shutdown)
	}
	return
}
