package main

// CNode: one real core (src/node core.go) over a real hashgraph and store,
// driven directly by the harness ("core" mode), plus the projection from the
// real objects to the abstract state logged in traces.

import (
	"encoding/hex"
	"fmt"
	"io/ioutil"
	"os"
	"sort"

	"github.com/mosaicnetworks/babble/src/common"
	hg "github.com/mosaicnetworks/babble/src/hashgraph"
	"github.com/mosaicnetworks/babble/src/node"
	"github.com/mosaicnetworks/babble/src/peers"
	"github.com/sirupsen/logrus"
)

type CNode struct {
	w       *World
	num     int
	part    *Part
	core    *node.VCore
	app     *VApp
	store   hg.Store
	view    map[string]bool // hashes inserted
	order   []string        // ids in insertion order
	undet   map[string]bool // hashes without round-received
	kind    string
	cache   int
	dir     string
	genesis []int
	failed  bool // an insertion failed with a non-normal error (C13 obligation stops)
	fs      *FaultStore
	lostWhy string
	lost    bool // a store fault was injected: the specification no longer tracks this node
	nospec  string // the specification no longer tracks this node, which is still compared with the others (reason)
}

func quietLogger() *logrus.Entry {
	l := logrus.New()
	l.Out = ioutil.Discard
	l.Level = logrus.PanicLevel
	return logrus.NewEntry(l)
}

func (w *World) NewStore(kind string, cache int, dir string) (hg.Store, error) {
	switch kind {
	case "inmem":
		return hg.NewInmemStore(cache), nil
	case "badger":
		return hg.NewBadgerStore(cache, dir, false, quietLogger())
	}
	return nil, fmt.Errorf("unknown store kind %s", kind)
}

func (w *World) NewCNode(p *Part, genesis []int, peerNums []int, kind string, cache int, dir string) *CNode {
	n := &CNode{w: w, num: p.Num, part: p, kind: kind, cache: cache, dir: dir, genesis: genesis,
		view: map[string]bool{}, undet: map[string]bool{}}
	st, err := w.NewStore(kind, cache, dir)
	if err != nil {
		panic(err)
	}
	n.store = st
	if w.faults {
		n.fs = NewFaultStore(st)
		st = n.fs
		n.store = st
	}
	n.app = NewVApp(w, p.Num)
	n.core = node.VNewCore(node.NewValidator(p.Key, p.Peer.Moniker),
		w.PeerSet(peerNums), w.PeerSet(genesis), st, n.app.CommitBlock, false, quietLogger())
	return n
}

func (n *CNode) Close() {
	n.store.Close()
	if n.kind == "badger" && n.dir != "" {
		os.RemoveAll(n.dir)
	}
}

// hashesToIDs maps event hashes to trace ids (registering nothing).
func (w *World) idOf(h string) string {
	if inf, ok := w.events[h]; ok {
		return inf.ID
	}
	return "?" + short(h)
}

// collectNew registers the events the core created since the last call (walks
// down from the head) and returns them oldest first.
func (n *CNode) collectNew() []*EvInfo {
	res := []*EvInfo{}
	h := n.core.Head()
	for h != "" && !n.view[h] {
		ev, err := peekEvent(n.store, h)
		if err != nil {
			break
		}
		res = append(res, nil)
		copy(res[1:], res[:len(res)-1])
		inf, _ := n.w.Register(ev)
		res[0] = inf
		h = ev.SelfParent()
	}
	// registration above ran newest-first: parents may have been unknown to the
	// driver at that time; recompute parent ids now, oldest first
	for _, inf := range res {
		if sp := inf.Ev.SelfParent(); sp != "" {
			inf.SP = n.w.idOf(sp)
		}
		if op := inf.Ev.OtherParent(); op != "" {
			inf.OP = n.w.idOf(op)
		}
	}
	return res
}

func (n *CNode) markInserted(inf *EvInfo) {
	n.view[inf.Hash] = true
	n.order = append(n.order, inf.ID)
	n.undet[inf.Hash] = true
}

func (n *CNode) knownObs() []interface{} {
	res := []interface{}{}
	known := n.core.KnownEvents()
	for _, id := range sortedKeysU32(known) {
		p := n.w.PartByID(id)
		c := 0
		if p != nil {
			c = p.Num
		}
		res = append(res, map[string]interface{}{"c": c, "i": known[id]})
	}
	sort.Slice(res, func(i, j int) bool {
		return res[i].(map[string]interface{})["c"].(int) < res[j].(map[string]interface{})["c"].(int)
	})
	return res
}

func fameOf(ri *hg.RoundInfo, h string) (bool, string) {
	w, f, ok := ri.VFame(h)
	if !ok {
		return false, "U"
	}
	return w, f
}

// valsObs: round / witness / lamport of the given events as the store holds them
func (n *CNode) valsObs(hashes []string) []interface{} {
	res := []interface{}{}
	for _, h := range hashes {
		ev, err := peekEvent(n.store, h)
		if err != nil {
			res = append(res, map[string]interface{}{"e": n.w.idOf(h), "r": -9, "w": false, "l": -9})
			continue
		}
		r, l := -1, -1
		if ev.VRound() != nil {
			r = *ev.VRound()
		}
		if ev.VLamport() != nil {
			l = *ev.VLamport()
		}
		wit := false
		if r >= 0 {
			if ri, err := n.store.GetRound(r); err == nil {
				wit, _ = fameOf(ri, h)
			}
		}
		res = append(res, map[string]interface{}{"e": n.w.idOf(h), "r": r, "w": wit, "l": l})
	}
	return res
}

func (n *CNode) rrObs() []interface{} {
	res := []interface{}{}
	hs := []string{}
	for h := range n.undet {
		hs = append(hs, h)
	}
	sort.Slice(hs, func(i, j int) bool { return n.w.events[hs[i]].Seq < n.w.events[hs[j]].Seq })
	for _, h := range hs {
		ev, err := peekEvent(n.store, h)
		if err != nil {
			continue
		}
		if rr := ev.VRoundReceived(); rr != nil {
			res = append(res, map[string]interface{}{"e": n.w.idOf(h), "rr": *rr})
			delete(n.undet, h)
		}
	}
	return res
}

func (n *CNode) roundsObs(from int) []interface{} {
	res := []interface{}{}
	if from < 0 {
		from = 0
	}
	for r := from; r <= n.store.LastRound(); r++ {
		ri, err := n.store.GetRound(r)
		if err != nil {
			continue
		}
		ws := []interface{}{}
		hs := []string{}
		for h := range ri.CreatedEvents {
			hs = append(hs, h)
		}
		sort.Slice(hs, func(i, j int) bool { return n.w.idOf(hs[i]) < n.w.idOf(hs[j]) })
		for _, h := range hs {
			w, f := fameOf(ri, h)
			if w {
				ws = append(ws, map[string]interface{}{"e": n.w.idOf(h), "f": f})
			}
		}
		res = append(res, map[string]interface{}{"r": r, "dec": ri.VDecided(), "ws": ws, "n": len(ri.CreatedEvents)})
	}
	return res
}

func (n *CNode) psObs() []interface{} {
	res := []interface{}{}
	all, err := n.store.GetAllPeerSets()
	if err != nil {
		return res
	}
	rs := []int{}
	for r := range all {
		rs = append(rs, r)
	}
	sort.Ints(rs)
	for _, r := range rs {
		res = append(res, map[string]interface{}{"r": r, "peers": n.w.PeerNums(all[r])})
	}
	return res
}

func bodyDigest(b *hg.Block) string {
	h, err := b.Body.Hash()
	if err != nil {
		return "err"
	}
	return hex.EncodeToString(h)[:16]
}

func hx(b []byte) string {
	if len(b) == 0 {
		return "-"
	}
	s := hex.EncodeToString(b)
	if len(s) > 16 {
		s = s[:16]
	}
	return s
}

func (w *World) txIDs2(txs [][]byte) []string {
	res := []string{}
	for _, t := range txs {
		res = append(res, w.TxID(t))
	}
	return res
}

func (w *World) itxIDs2(itxs []hg.InternalTransaction) []interface{} {
	res := []interface{}{}
	for i := range itxs {
		res = append(res, w.ItxInfoOf(&itxs[i]))
	}
	return res
}

// blockObs projects a delivered block.
func (n *CNode) blockObs(d *Delivered) (res map[string]interface{}) {
	b := &d.Block
	evs := []string{}
	fws := []string{}
	roots := []interface{}{}
	fpeers := []int{}
	ftsV, ftsBig := 0, false
	if fr, err := n.store.GetFrame(b.RoundReceived()); err == nil {
		for _, fe := range fr.Events {
			evs = append(evs, n.w.idOf(fe.Core.Hex()))
		}
		ps := []string{}
		for p := range fr.Roots {
			ps = append(ps, p)
		}
		sort.Slice(ps, func(i, j int) bool {
			a, b := n.w.PartByPub(ps[i]), n.w.PartByPub(ps[j])
			if a == nil || b == nil {
				return ps[i] < ps[j]
			}
			return a.Num < b.Num
		})
		for _, p := range ps {
			ids := []string{}
			for _, fe := range fr.Roots[p].Events {
				ids = append(ids, n.w.idOf(fe.Core.Hex()))
			}
			c := 0
			if q := n.w.PartByPub(p); q != nil {
				c = q.Num
			}
			roots = append(roots, map[string]interface{}{"c": c, "evs": ids})
		}
		fpeers = n.w.PeerNums(fr.Peers)
		ftsV, ftsBig = n.w.RelTS(fr.Timestamp)
	}
	if ri, err := n.store.GetRound(b.RoundReceived()); err == nil {
		for _, h := range ri.FamousWitnesses() {
			fws = append(fws, n.w.idOf(h))
		}
		sort.Strings(fws)
	}
	rc := []bool{}
	for _, r := range d.Resp.InternalTransactionReceipts {
		rc = append(rc, r.Accepted)
	}
	ts, big := n.w.RelTS(b.Timestamp())
	if d.LostReply {
		defer func() {
			// (the store can only hold the body as it was handed over)
			res["dig0"] = hex.EncodeToString(d.Dig0)[:16]
			res["lostreply"] = true
		}()
	}
	return map[string]interface{}{
		"idx": b.Index(), "rr": b.RoundReceived(), "evs": evs,
		"txs": n.w.txIDs2(b.Transactions()), "itxs": n.w.itxIDs2(b.InternalTransactions()),
		"rcpt": rc, "ts": ts, "big": big, "peers": fpeers, "fws": fws, "roots": roots,
		"fts": ftsV, "ftsbig": ftsBig,
		"fh": hx(b.FrameHash()), "ph": hx(b.PeersHash()), "sh": hx(d.Resp.StateHash),
		"dig": hex.EncodeToString(d.BodyHash)[:16], "phase": d.Phase,
	}
}

// storeObs: what the store reports now for every block index up to the last
func (n *CNode) storeObs() []interface{} {
	res := []interface{}{}
	for i := 0; i <= n.store.LastBlockIndex(); i++ {
		b, err := n.store.GetBlock(i)
		if err != nil {
			if common.IsStore(err, common.KeyNotFound) {
				continue
			}
			res = append(res, map[string]interface{}{"idx": i, "dig": "err", "sigs": []interface{}{}, "rr": -1})
			continue
		}
		sigs := []interface{}{}
		vs := []string{}
		for v := range b.Signatures {
			vs = append(vs, v)
		}
		sort.Strings(vs)
		for _, v := range vs {
			bs, _ := b.GetSignature(v)
			by := 0
			if p := n.w.PartByPub(v); p != nil {
				by = p.Num
			}
			// validity against this node's own body, by the driver's own crypto
			// (memoised per body digest / signer / signature)
			ck := bodyDigest(b) + "|" + v + "|" + bs.Signature
			q, hit := n.w.sigMemo[ck]
			if !hit {
				q = classifyAgainst(bs, b)
				n.w.sigMemo[ck] = q
			}
			sigs = append(sigs, map[string]interface{}{"by": by, "q": q, "k": digest([]byte(v))})
		}
		res = append(res, map[string]interface{}{"idx": i, "dig": bodyDigest(b), "sigs": sigs, "rr": b.RoundReceived()})
	}
	return res
}

func classifyAgainst(bs hg.BlockSignature, b *hg.Block) (q string) {
	defer func() {
		if r := recover(); r != nil {
			q = "mal"
		}
	}()
	ok, err := b.Verify(bs)
	if err != nil {
		return "mal"
	}
	if ok {
		return "good"
	}
	return "bad"
}

func (n *CNode) headsObs() []interface{} {
	res := []interface{}{}
	hd := n.core.Heads()
	ids := []uint32{}
	for id := range hd {
		ids = append(ids, id)
	}
	sort.Slice(ids, func(i, j int) bool { return ids[i] < ids[j] })
	for _, id := range ids {
		c := 0
		if p := n.w.PartByID(id); p != nil {
			c = p.Num
		}
		e := ""
		if hd[id] != "" {
			e = n.w.idOf(hd[id])
		}
		res = append(res, map[string]interface{}{"c": c, "e": e})
	}
	sort.Slice(res, func(i, j int) bool {
		return res[i].(map[string]interface{})["c"].(int) < res[j].(map[string]interface{})["c"].(int)
	})
	return res
}

// Observe builds the observation record after a step of this node.
func (n *CNode) Observe(inserted []string, roundsFrom int, full bool) map[string]interface{} {
	hgr := n.core.Hg()
	lcr := -1
	if hgr.LastConsensusRound != nil {
		lcr = *hgr.LastConsensusRound
	}
	anchor := -1
	if hgr.AnchorBlock != nil {
		anchor = *hgr.AnchorBlock
	}
	blocks := []interface{}{}
	for _, d := range n.app.Drain() {
		dd := d
		blocks = append(blocks, n.blockObs(&dd))
	}
	rr := n.rrObs()
	// an event that left the cache before its round-received could be read
	// from it is reported through the frame it was committed in
	for _, b := range blocks {
		bm := b.(map[string]interface{})
		for _, id := range bm["evs"].([]string) {
			if inf, ok := n.w.byID[id]; ok && n.undet[inf.Hash] {
				rr = append(rr, map[string]interface{}{"e": id, "rr": bm["rr"]})
				delete(n.undet, inf.Hash)
			}
		}
	}
	// ... or through the round that received it (events received in a round whose
	// frame carries no payload are in no block)
	if len(n.undet) > 0 {
		from := roundsFrom
		if from < 0 {
			from = 0
		}
		for r := from; r <= n.store.LastRound(); r++ {
			ri, err := n.store.GetRound(r)
			if err != nil {
				continue
			}
			for _, h := range ri.ReceivedEvents {
				if n.undet[h] {
					rr = append(rr, map[string]interface{}{"e": n.w.idOf(h), "rr": r})
					delete(n.undet, h)
				}
			}
		}
	}
	selfsigs := []int{}
	for _, s := range n.core.SelfBlockSignatures() {
		selfsigs = append(selfsigs, s.Index)
	}
	sort.Ints(selfsigs)
	head := ""
	if n.core.Head() != "" {
		head = n.w.idOf(n.core.Head())
	}
	pool := []string{}
	for _, t := range n.core.TransactionPool() {
		pool = append(pool, n.w.TxID(t))
	}
	ipool := []string{}
	for i := range n.core.InternalTransactionPool() {
		t := n.core.InternalTransactionPool()[i]
		ipool = append(ipool, n.w.ItxInfoOf(&t).ID)
	}
	o := map[string]interface{}{
		"vals": n.valsObs(inserted), "rr": rr, "blocks": blocks,
		"rounds": n.roundsObs(roundsFrom), "known": n.knownObs(),
		"lcr": lcr, "undet": len(hgr.UndeterminedEvents), "loaded": hgr.PendingLoadedEvents,
		"anchor": anchor, "lastBlock": n.store.LastBlockIndex(), "lastRound": n.store.LastRound(),
		"head": head, "seq": n.core.Seq(), "txpool": pool, "itxpool": ipool,
		"selfsigs": selfsigs, "busy": n.core.Busy(), "heads": n.headsObs(),
		"sigpool": hgr.PendingSignatures.Len(), "target": n.core.TargetRound(),
		"ps": n.psObs(), "topo": hgr.VTopologicalIndex(),
	}
	if full {
		o["store"] = n.storeObs()
	}
	return o
}

var _ = peers.NewPeer

// peekEvent reads an event for observation without refreshing the store's LRU
// cache (an observer that keeps events hot would hide evictions).
func peekEvent(st hg.Store, h string) (*hg.Event, error) {
	for {
		switch s := st.(type) {
		case *FaultStore:
			st = s.Store
			continue
		case *RecStore:
			st = s.Store
			continue
		case *TapStore:
			st = s.Store
			continue
		}
		break
	}
	return hg.VPeekEvent(st, h)
}
