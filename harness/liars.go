package main

// "liars" mode (C18, also feeds C09): N validators of which fewer than a third
// are puppets that stamp their events with arbitrary times; honest cores use
// the real clock.  Random pairwise exchanges among all of them.

import (
	"time"

	"github.com/mosaicnetworks/babble/src/common"
	hg "github.com/mosaicnetworks/babble/src/hashgraph"
)

func init() { modes["liars"] = runLiars }

type mixedNet struct {
	cn      *CoreNet
	puppets map[int]*PNode
}

// exchange: receiver a pulls from sender b
func (m *mixedNet) exchange(a, b int, limit int, full bool) {
	w := m.cn.w
	ha, aHonest := m.cn.byNum[a]
	hb, bHonest := m.cn.byNum[b]
	switch {
	case aHonest && bHonest:
		m.cn.SyncStep(ha, hb, limit, full)
	case aHonest && !bHonest:
		pb := m.puppets[b]
		diff := storeDiff(pb.store, ha.core.KnownEvents())
		if limit > 0 && len(diff) > limit {
			diff = diff[:limit]
		}
		m.cn.deliver(ha, b, pb.part.ID, diff, toWire(diff), full)
	default:
		pa := m.puppets[a]
		var diff []*hg.Event
		var fromPub string
		if bHonest {
			d, err := hb.core.EventDiff(pa.store.KnownEvents())
			if err != nil {
				return
			}
			diff = d
			fromPub = hb.part.PubHex
		} else {
			diff = storeDiff(m.puppets[b].store, pa.store.KnownEvents())
			fromPub = m.puppets[b].part.PubHex
		}
		if limit > 0 && len(diff) > limit {
			diff = diff[:limit]
		}
		pa.Receive(toWire(diff))
		var sigs []hg.BlockSignature
		if pa.sigGen != nil {
			sigs = pa.sigGen(pa)
		}
		var txs [][]byte
		if w.rng.Intn(4) == 0 {
			id, payload := w.RandTx()
			txs = [][]byte{payload}
			w.Emit(pa.num, "Submit", map[string]interface{}{"tx": id, "puppet": true}, nil)
		}
		pa.Create(pa.lastFrom(fromPub), pa.tsGen(), txs, sigs)
	}
}

func runLiars(o *Opts) *Summary {
	s := &Summary{Mode: "liars"}
	var w *World
	for t := 0; t < o.Traces; t++ {
		n := o.N
		if n == 0 {
			n = 4 + t%4
		}
		w2 := NewWorld(o.Seed*1000+int64(t), n)
		if w == nil {
			w2.OpenTrace(o.Out)
		} else {
			w2.out, w2.outF, w2.lines = w.out, w.outF, w.lines
		}
		w = w2
		w.traceNo = t + 1
		w.tsBase = time.Now().Unix()
		f := (n - 1) / 3
		if f < 1 {
			f = 0
		}
		// honest validators with skewed (but plausible) clocks are crafted too, so
		// that honest famous witnesses report different times within one round
		nskew := (n - f) / 3
		if n-f >= 3 && nskew < 1 {
			nskew = 1
		}
		gen, honest, liars, skewed := []int{}, []int{}, []int{}, []int{}
		for i := 1; i <= n; i++ {
			gen = append(gen, i)
			if i > n-f {
				liars = append(liars, i)
			} else if i > n-f-nskew {
				skewed = append(skewed, i)
			} else {
				honest = append(honest, i)
			}
		}
		cn := &CoreNet{w: w, byNum: map[int]*CNode{}}
		for _, k := range honest {
			nd := w.NewCNode(w.parts[k-1], gen, gen, o.Store, o.Cache, "")
			cn.nodes = append(cn.nodes, nd)
			cn.byNum[k] = nd
		}
		m := &mixedNet{cn: cn, puppets: map[int]*PNode{}}
		for _, k := range liars {
			p := w.NewPNode(w.parts[k-1], gen)
			style := (t + k) % 3 // every style appears within three consecutive traces
			p.tsGen = func() int64 {
				switch style {
				case 0:
					return extremeTS[w.rng.Intn(len(extremeTS))]
				case 1:
					return w.rng.Int63() - w.rng.Int63()
				default:
					return w.tsBase + int64(w.rng.Intn(2000)) - 1000
				}
			}
			m.puppets[k] = p
		}
		for _, k := range skewed {
			p := w.NewPNode(w.parts[k-1], gen)
			off := int64(w.rng.Intn(400) - 200)
			p.tsGen = func() int64 { return time.Now().Unix() + off + int64(w.rng.Intn(7)) }
			m.puppets[k] = p
		}
		cn.EmitInit(map[string]interface{}{"sched": "liars", "liars": liars, "skewed": skewed, "seed": o.Seed*1000 + int64(t)})
		for k := 0; k < o.Steps; k++ {
			if w.rng.Float64() < o.TxP {
				tgt := cn.nodes[w.rng.Intn(len(cn.nodes))]
				id, payload := w.RandTx()
				cn.Submit(tgt, id, payload)
			}
			a := gen[w.rng.Intn(n)]
			b := gen[w.rng.Intn(n)]
			if a == b {
				continue
			}
			// in every other trace one validator with a skewed clock is slow: it
			// takes part in one exchange out of eight, so its witnesses arrive late
			// and are often not famous
			if t%2 == 1 && w.rng.Intn(8) != 0 {
				slow := map[int]bool{}
				if len(skewed) > 0 {
					slow[skewed[0]] = true
				}
				if len(liars) > 0 && n >= 5 {
					slow[liars[0]] = true
				}
				if slow[a] || slow[b] {
					continue
				}
			}
			m.exchange(a, b, 0, o.Full > 0 && k%o.Full == 0)
		}
		s.Steps += cn.steps
		s.Events += len(w.events)
		s.Blocks += cn.blocks
		s.Errors += cn.errs
		if len(s.Samples) < 3 {
			s.Samples = append(s.Samples, map[string]interface{}{"trace": t + 1, "n": n, "liars": liars,
				"events": len(w.events), "blocks_delivered": cn.blocks})
		}
		cn.Close()
	}
	// common.Median tabulated on every list over a small domain (lengths 0..5)
	dom := []int64{-3, -1, 0, 2, 5}
	rows := []interface{}{}
	var rec func(cur []int64, depth int)
	rec = func(cur []int64, depth int) {
		l := make([]int, len(cur))
		for i, v := range cur {
			l[i] = int(v)
		}
		rows = append(rows, map[string]interface{}{"l": l, "m": int(common.Median(cur))})
		if depth == 5 {
			return
		}
		for _, v := range dom {
			rec(append(append([]int64{}, cur...), v), depth+1)
		}
	}
	rec([]int64{}, 0)
	for i := 0; i < len(rows); i += 400 {
		j := i + 400
		if j > len(rows) {
			j = len(rows)
		}
		w.Emit(0, "Median", map[string]interface{}{"rows": rows[i:j]}, nil)
	}
	s.Traces = o.Traces
	s.Lines = w.lines
	w.CloseTrace()
	return s
}
