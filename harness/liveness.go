package main

// "live" mode (C06): an arbitrary prefix (any scheduler, truncated syncs,
// mangled responses, submissions), after which a minority of fewer than a third
// of the validators goes silent; then fair all-pairs cycles among the rest until
// every live node is idle, bounded by a constant far above the need.

import (
	"time"

	hg "github.com/mosaicnetworks/babble/src/hashgraph"
)

func init() { modes["live"] = runLive }

const liveBound = 40

func runLive(o *Opts) *Summary {
	s := &Summary{Mode: "live", Extra: map[string]interface{}{}}
	var w *World
	maxCycles := 0
	nsplit := 0
	for t := 0; t < o.Traces; t++ {
		n := o.N
		if n == 0 {
			n = 1 + t%7
		}
		w2 := NewWorld(o.Seed*1000+int64(t), n)
		if w == nil {
			w2.OpenTrace(o.Out)
		} else {
			w2.out, w2.outF, w2.lines = w.out, w.outF, w.lines
		}
		w = w2
		w.traceNo = t + 1
		w.tsBase = time.Now().Unix()
		sn := schedNames[t%len(schedNames)]
		cn := NewCoreNet(w, CoreOpts{N: n, Store: o.Store, Cache: o.Cache, Dir: o.Dir})
		if t%3 == 1 {
			cn.mangle = 0.2
		}
		if t%5 == 3 || t%7 == 5 {
			cn.EnableReentrant(0.35)
		}
		cn.EmitInit(map[string]interface{}{"sched": "live-" + sn, "seed": o.Seed*1000 + int64(t), "nc": n + 1})
		sc := makeSched(w, sn, n, o.Steps)
		emptyOnly := t%4 == 2
		// vote splitter (n = 4): thirteen pulls, some of them truncated, after which
		// the fame of validator 1's first witness is voted 2-2 in rounds 1 and 2
		// while the witnesses of the later rounds are seen by everybody; a single
		// transaction is pending; then the fair phase
		split := n == 4 && t%2 == 1
		steps := o.Steps
		if split {
			steps = 0
			splitVotePrefix(cn)
			nsplit++
		}
		for k := 0; k < steps; k++ {
			if w.rng.Float64() < o.TxP {
				tgt := cn.nodes[w.rng.Intn(len(cn.nodes))]
				id, payload := w.RandTx()
				if emptyOnly || (t%4 == 0 && w.rng.Intn(3) == 0) {
					// zero-length transactions are transactions too
					id, payload = w.NewTx([]byte{})
				}
				cn.Submit(tgt, id, payload)
			}
			if n == 1 {
				cn.MonologueStep(cn.nodes[0], false)
				continue
			}
			if a, b, limit, ok := sc.pick(k); ok {
				cn.SyncStep(cn.byNum[a], cn.byNum[b], limit, false)
			}
		}
		// a minority of fewer than a third goes silent from here on
		f := 0
		if n >= 4 {
			f = w.rng.Intn((n-1)/3 + 1)
			if t%2 == 1 {
				f = 0 // the repeated-join scenario below adds a silent validator of its own
			}
		}
		live := []*CNode{}
		liveNums := []int{}
		perm := w.rng.Perm(n)
		silent := map[int]bool{}
		for i := 0; i < f; i++ {
			silent[perm[i]+1] = true
		}
		for _, nd := range cn.nodes {
			if !silent[nd.num] {
				live = append(live, nd)
				liveNums = append(liveNums, nd.num)
			}
		}
		// late submissions right before the fair phase
		for q := 0; q < 2 && !split; q++ {
			tgt := live[w.rng.Intn(len(live))]
			id, payload := w.RandTx()
			if emptyOnly {
				id, payload = w.NewTx([]byte{})
			}
			cn.Submit(tgt, id, payload)
		}
		// a join request that its sender repeated (slow consensus, JoinTimeout): the
		// same signed request reaches one validator four times; only the last
		// handler is still waiting for the answer.  The joiner itself stays silent.
		retried := false
		if f == 0 && n >= 4 && t%2 == 1 && !split {
			retried = true
			jp := w.AddPart()
			itx := hg.NewInternalTransactionJoin(*jp.Peer)
			itx.Sign(jp.Key)
			holder := live[w.rng.Intn(len(live))]
			for q := 0; q < 4; q++ {
				holder.core.AddInternalTransaction(itx)
				inf := w.SetItxPolicy(&itx, true)
				w.Emit(holder.num, "AddItx", map[string]interface{}{"itx": inf, "for": jp.Num, "kind": "join", "retry": q},
					map[string]interface{}{"itxpool": len(holder.core.InternalTransactionPool())})
			}
		}
		idle := func() bool {
			for _, nd := range live {
				if nd.core.Busy() {
					return false
				}
			}
			return true
		}
		cycles := 0
		// The fair phase uses the configured sync limit (1000 by default): far above
		// any backlog here.  (With limits of 3..7 in the fair phase the backlog of a
		// lagging node shrinks by only a few events per cycle while every exchange
		// creates new ones; the network still progresses but needs more cycles than
		// any fixed bound - truncation belongs to the adversarial prefix, as the
		// property states it.)
		limit := 1000
		stuck := false
		for cycles < liveBound+1 && !idle() && !stuck {
			cycles++
			done := make(chan struct{})
			go func() {
				defer close(done)
				if n == 1 {
					cn.MonologueStep(live[0], false)
					return
				}
				for _, a := range live {
					for _, b := range live {
						if a != b {
							cn.SyncStep(a, b, limit, false)
						}
					}
				}
			}()
			select {
			case <-done:
			case <-time.After(60 * time.Second):
				// a validator never came back from a step (blocked inside it)
				stuck = true
			}
		}
		busy := []bool{}
		loaded := []int{}
		if stuck {
			for range live {
				busy = append(busy, true)
				loaded = append(loaded, -1)
			}
		} else {
			for _, nd := range live {
				busy = append(busy, nd.core.Busy())
				loaded = append(loaded, nd.core.Hg().PendingLoadedEvents)
			}
		}
		w.Emit(0, "LiveCheck", map[string]interface{}{"live": liveNums, "cycles": cycles, "bound": liveBound, "limit": limit, "retried_join": retried, "stuck": stuck},
			map[string]interface{}{"busy": busy, "loaded": loaded})
		if stuck {
			// the blocked goroutine still owns the cores: leave them alone
			s.Steps += cn.steps
			s.Errors++
			continue
		}
		if cycles > maxCycles {
			maxCycles = cycles
		}
		s.Steps += cn.steps
		s.Events += len(w.events)
		s.Blocks += cn.blocks
		s.Errors += cn.errs
		if len(s.Samples) < 4 {
			s.Samples = append(s.Samples, map[string]interface{}{"trace": t + 1, "n": n, "prefix": sn, "silent": f,
				"cycles_to_idle": cycles, "events": len(w.events), "blocks_delivered": cn.blocks})
		}
		cn.Close()
	}
	s.Extra["max_cycles_to_idle"] = maxCycles
	s.Extra["split_vote_prefixes"] = nsplit
	s.Extra["bound"] = liveBound
	s.Traces = o.Traces
	s.Lines = w.lines
	w.CloseTrace()
	return s
}

// splitVotePrefix: the vote-splitting opening (the repository's "funky" shape,
// produced by ordinary pulls).  SyncUpTo(a, b, id): a pulls from b and the
// response is cut after event id (the sync limit in action); "" = empty response.
func splitVotePrefix(cn *CoreNet) {
	w := cn.w
	nd := func(k int) *CNode { return cn.byNum[k] }
	// first events: every validator records an empty exchange
	for k := 1; k <= 4; k++ {
		cn.SyncUpTo(nd(k), nd(k%4+1), "")
	}
	id, payload := w.RandTx()
	cn.Submit(nd(3), id, payload)
	for _, st := range []struct {
		to, from int
		last     string
	}{
		{3, 4, "c4.0"}, {2, 3, "c3.1"}, {1, 2, ""}, {2, 1, "c1.1"}, {3, 2, "c2.1"}, {4, 3, "c3.2"}, {3, 4, "c4.1"},
		{2, 3, "c3.3"}, {1, 2, "c2.3"}, {3, 1, "c1.2"}, {4, 1, "c1.2"}, {2, 3, "c3.4"}, {1, 2, "c2.4"},
	} {
		cn.SyncUpTo(nd(st.to), nd(st.from), st.last)
	}
}
