package main

// "quorum" mode (C19): tabulate PeerSet.SuperMajority() and TrustCount() of the
// real code for every n in 1..max, for sets built by seeded sequences of
// WithNewPeer / WithRemovedPeer, and the acceptance decisions of
// SetAnchorBlock / CheckBlock for small n with k real signatures.

import (
	"fmt"
	"strconv"

	hg "github.com/mosaicnetworks/babble/src/hashgraph"
	"github.com/mosaicnetworks/babble/src/peers"
)

func init() { modes["quorum"] = runQuorum }

func runQuorum(o *Opts) *Summary {
	s := &Summary{Mode: "quorum"}
	w := NewWorld(o.Seed, 0)
	w.OpenTrace(o.Out)
	w.traceNo = 1
	max := 100000
	if o.Arg != "" {
		if v, err := strconv.Atoi(o.Arg); err == nil {
			max = v
		}
	}
	w.Emit(0, "Init", map[string]interface{}{"nc": 1, "genesis": []int{1}, "nodes": []interface{}{}, "mode": "quorum", "max": max}, nil)

	// (a) every n: one growing map, a fresh PeerSet header per n
	all := make([]*peers.Peer, 0, max)
	byPub := map[string]*peers.Peer{}
	byID := map[uint32]*peers.Peer{}
	rows := []interface{}{}
	flush := func(kind string) {
		if len(rows) > 0 {
			w.Emit(0, "Quorum", map[string]interface{}{"kind": kind, "rows": rows}, nil)
			rows = []interface{}{}
		}
	}
	for n := 1; n <= max; n++ {
		p := peers.NewPeer(fmt.Sprintf("0X%040X", n), "", "")
		all = append(all, p)
		byPub[p.PubKeyString()] = p
		byID[uint32(n)] = p
		ps := &peers.PeerSet{Peers: all[:n], ByPubKey: byPub, ByID: byID}
		rows = append(rows, []int{n, ps.SuperMajority(), ps.TrustCount(), ps.Len()})
		s.Steps++
		if len(rows) == 500 {
			flush("range")
		}
	}
	flush("range")

	// (b) sets built by additions and removals (re-adding, removing absentees, duplicates)
	pool := []*peers.Peer{}
	for i := 0; i < 40; i++ {
		pool = append(pool, w.AddPart().Peer)
	}
	nseq := 40
	if o.Steps > 0 {
		nseq = o.Steps
	}
	for q := 0; q < nseq; q++ {
		ps := peers.NewPeerSet([]*peers.Peer{})
		model := map[string]bool{}
		ops := []string{}
		for k := 0; k < 60; k++ {
			p := pool[w.rng.Intn(len(pool))]
			if w.rng.Intn(3) > 0 {
				ps = ps.WithNewPeer(peers.NewPeer(p.PubKeyHex, p.NetAddr, p.Moniker))
				model[p.PubKeyString()] = true
				ops = append(ops, "+"+strconv.Itoa(w.PartByPub(p.PubKeyHex).Num))
			} else {
				ps = ps.WithRemovedPeer(p)
				delete(model, p.PubKeyString())
				ops = append(ops, "-"+strconv.Itoa(w.PartByPub(p.PubKeyHex).Num))
			}
			if len(model) > 0 {
				rows = append(rows, []int{len(model), ps.SuperMajority(), ps.TrustCount(), ps.Len()})
				s.Steps++
			}
		}
		if q < 2 {
			s.Samples = append(s.Samples, map[string]interface{}{"ops": ops, "final_n": len(model), "sm": ps.SuperMajority(), "tc": ps.TrustCount()})
		}
		flush("built")
	}

	// (d) validator sets in which two members have the same 32-bit peer ID
	wc := NewWorld(o.Seed, 2)
	wc.SetKey(1, collidingKeyA)
	wc.SetKey(2, collidingKeyB)
	for n := 2; n <= 12; n++ {
		list := []*peers.Peer{wc.parts[0].Peer, wc.parts[1].Peer}
		list = append(list, pool[:n-2]...)
		ps := peers.NewPeerSet(list)
		rows = append(rows, []int{n, ps.SuperMajority(), ps.TrustCount(), ps.Len()})
		s.Steps++
	}
	flush("colliding-ids")

	// (c) acceptance decisions for n = 1..10 and k = 0..n real signatures
	acc := []interface{}{}
	for n := 1; n <= 10; n++ {
		nums := []int{}
		for i := 1; i <= n; i++ {
			nums = append(nums, i)
		}
		ps := w.PeerSet(nums)
		for k := 0; k <= n; k++ {
			st := hg.NewInmemStore(100)
			h := hg.NewHashgraph(st, hg.DummyInternalCommitCallback, quietLogger())
			h.Init(ps)
			block := hg.NewBlock(0, 1, []byte("framehash"), ps.Peers, [][]byte{[]byte("tx")}, []hg.InternalTransaction{}, 0)
			for i := 0; i < k; i++ {
				sig, err := block.Sign(w.parts[i].Key)
				if err != nil {
					panic(err)
				}
				block.SetSignature(sig)
			}
			st.SetBlock(block)
			h.SetAnchorBlock(block)
			anchored := h.AnchorBlock != nil
			checked := h.CheckBlock(block, ps) == nil
			acc = append(acc, []interface{}{n, k, anchored, checked})
			s.Steps++
		}
	}
	w.Emit(0, "QuorumAccept", map[string]interface{}{"rows": acc}, nil)
	s.Samples = append(s.Samples, map[string]interface{}{"accept_rows_n3": acc[6:10]})
	s.Traces = 1
	s.Lines = w.lines
	w.CloseTrace()
	return s
}
