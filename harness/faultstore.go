package main

// FaultStore wraps a real hg.Store and makes one chosen write fail once
// (a transient store error), before the write reaches the real store.

import (
	"fmt"

	hg "github.com/mosaicnetworks/babble/src/hashgraph"
	"github.com/mosaicnetworks/babble/src/peers"
)

type FaultStore struct {
	hg.Store
	armed  string // method name, "" if none
	after  int    // fail the after-th call from now
	burst  bool   // fail every call of the method until Disarm (an outage lasting one step)
	fired  []string
	counts map[string]int
}

func NewFaultStore(s hg.Store) *FaultStore {
	return &FaultStore{Store: s, counts: map[string]int{}}
}

func (f *FaultStore) Arm(method string, after int) { f.armed, f.after = method, after }

func (f *FaultStore) hit(method string) error {
	f.counts[method]++
	if f.armed == method {
		f.after--
		if f.after <= 0 {
			if !f.burst {
				f.armed = ""
			}
			f.fired = append(f.fired, method)
			return fmt.Errorf("faultstore: injected transient failure of %s", method)
		}
	}
	return nil
}

// ArmBurst makes every call of method fail until Disarm.
func (f *FaultStore) ArmBurst(method string) { f.armed, f.after, f.burst = method, 1, true }

// Disarm ends a burst (and cancels a pending single fault).
func (f *FaultStore) Disarm() { f.armed, f.burst = "", false }

func (f *FaultStore) TakeFired() []string {
	r := f.fired
	f.fired = nil
	return r
}

// SetEvent: only the first write of an event that is not in the store yet can
// be made to fail ("SetEventNew"): the insertion fails before anything changed.
// Later rewrites of an event (coordinates, round) are not failed: babble
// ignores or half-applies those errors and no property speaks about them.
func (f *FaultStore) SetEvent(e *hg.Event) error {
	if _, err := f.Store.GetEvent(e.Hex()); err != nil {
		if err := f.hit("SetEventNew"); err != nil {
			return err
		}
	}
	return f.Store.SetEvent(e)
}
func (f *FaultStore) SetRound(r int, ri *hg.RoundInfo) error {
	if err := f.hit("SetRound"); err != nil {
		return err
	}
	return f.Store.SetRound(r, ri)
}
func (f *FaultStore) SetBlock(b *hg.Block) error {
	if err := f.hit("SetBlock"); err != nil {
		return err
	}
	return f.Store.SetBlock(b)
}
func (f *FaultStore) SetFrame(fr *hg.Frame) error {
	if err := f.hit("SetFrame"); err != nil {
		return err
	}
	return f.Store.SetFrame(fr)
}
func (f *FaultStore) SetPeerSet(r int, ps *peers.PeerSet) error {
	if err := f.hit("SetPeerSet"); err != nil {
		return err
	}
	return f.Store.SetPeerSet(r, ps)
}
func (f *FaultStore) AddConsensusEvent(e *hg.Event) error {
	if err := f.hit("AddConsensusEvent"); err != nil {
		return err
	}
	return f.Store.AddConsensusEvent(e)
}

var faultMethods = []string{"SetEventNew", "SetBlock", "SetFrame", "AddConsensusEvent"}
