package main

// Two secp256k1 keys whose peer IDs (32-bit FNV-1a of the public key, see
// keys.PublicKeyID) are equal.  Found by a birthday search over ~35000 fresh
// keys; used to build participants that babble's ID-indexed maps cannot tell
// apart (C14: a stranger whose ID equals a validator's; C19: validator sets
// containing both).

import (
	"encoding/hex"
	"fmt"
	"strings"

	"github.com/mosaicnetworks/babble/src/crypto/keys"
	"github.com/mosaicnetworks/babble/src/peers"
)

const (
	collidingKeyA = "1f6a5862294ae9503d931160b86482dfba5b2ecb49fab04184d5b9f0a36aa972"
	collidingKeyB = "e2c01c254f482d5d43c48f0d4873d0fc22290e85ea23302d005cf48a1fa10350"
)

// SetKey replaces the key pair of participant num (before any node uses it).
func (w *World) SetKey(num int, privHex string) {
	raw, err := hex.DecodeString(privHex)
	if err != nil {
		panic(err)
	}
	key, err := keys.ParsePrivateKey(raw)
	if err != nil {
		panic(err)
	}
	p := w.parts[num-1]
	delete(w.byPub, strings.ToUpper(p.PubHex))
	p.Key = key
	p.PubHex = keys.PublicKeyHex(&key.PublicKey)
	p.Pub = keys.FromPublicKey(&key.PublicKey)
	p.Peer = peers.NewPeer(p.PubHex, fmt.Sprintf("addr%d", num), fmt.Sprintf("n%d", num))
	p.ID = p.Peer.ID()
	w.byPub[strings.ToUpper(p.PubHex)] = p
}
